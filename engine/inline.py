"""Helper-transparent analysis: splice small private helpers into their callers at the fact level (MIR JSON), so that a
rule written against `handle_put` / `run_bisync` / `apply` ... still sees the mechanism after an extract-function refactor.

Which functions are spliced - a function F of the crate is inlined into its callers iff
  * it is a plain `fn` (not a closure / coroutine / async fn), not `pub`, not recursive, at most MAX_BLOCKS blocks,
  * it has between 1 and MAX_SITES call sites, all of them in bodies of the SAME source file,
  * no rule of the checker refers to it by name (ANCHORS = every quoted `module::item` path that occurs in engine/rules/*.py
    and engine/*.py): the functions the rules are *about* stay what they are.
On the pinned tree this selects nothing the rules look at; after "extract helper" it selects exactly the new helper.

The splice is the textbook one: callee locals and blocks are renumbered behind the caller's, parameters become assignments
from the call's argument operands, `return` becomes `dst = move _ret; goto <call target>`.  Bodies nested in the callee
(closures) stay separate bodies - their `parent` still names the callee, whose own facts remain available.
"""
import copy
import json
import glob
import os
import re

MAX_BLOCKS = 250
MAX_SITES = 4
_HERE = os.path.dirname(os.path.abspath(__file__))
_anchors = None


def anchors():
    global _anchors
    if _anchors is None:
        out = set()
        for f in glob.glob(os.path.join(_HERE, 'rules', '*.py')) + glob.glob(os.path.join(_HERE, '*.py')):
            if f.endswith('inline.py'):
                continue
            for m in re.finditer(r"""['"]([A-Za-z_<][^'"\n]*::[A-Za-z_][A-Za-z0-9_]*)['"]""", open(f).read()):
                out.add(m.group(1))
        # bare names used with suffix tests / prefixes
        out |= {'run_delta', 'run_patch', 'run_signature', 'run'}
        _anchors = out
    return _anchors


def _callee(t):
    f = t.get('func', {})
    fn = f.get('fn_resolved') or f.get('fn')
    if fn is None:
        return None
    from facts import norm
    return norm(fn)


def _callee_fn(t):
    """the callee as written (trait method path), not the impl it resolves to"""
    f = t.get('func', {})
    fn = f.get('fn') or f.get('fn_resolved')
    if fn is None:
        return None
    from facts import norm
    return norm(fn)


def _shift_place(p, loff):
    q = {'l': p['l'] + loff, 'proj': []}
    for e in p['proj']:
        if isinstance(e, dict) and 'idx' in e:
            e = dict(e, idx=e['idx'] + loff)
        q['proj'].append(e)
    return q


def _shift_op(op, loff):
    if 'p' in op:
        return dict(op, p=_shift_place(op['p'], loff))
    return op


def _shift_rv(rv, loff):
    rv = dict(rv)
    if 'p' in rv:
        rv['p'] = _shift_place(rv['p'], loff)
    if 'ops' in rv:
        rv['ops'] = [_shift_op(o, loff) for o in rv['ops']]
    return rv


def _shift_term(t, loff, boff, ret_block):
    t = dict(t)
    for k in ('target', 'otherwise', 'drop'):
        if isinstance(t.get(k), int):
            t[k] = t[k] + boff
    if 'imaginary' in t and isinstance(t['imaginary'], int):
        t['imaginary'] += boff
    if 'unwind' in t and isinstance(t['unwind'], int):
        t['unwind'] += boff
    if 'targets' in t:
        t['targets'] = [[v, tg + boff] for v, tg in t['targets']]
    if 'on' in t:
        t['on'] = _shift_op(t['on'], loff)
    if 'cond' in t:
        t['cond'] = _shift_op(t['cond'], loff)
    if 'args' in t:
        t['args'] = [_shift_op(a, loff) for a in t['args']]
    if 'dst' in t and isinstance(t['dst'], dict):
        t['dst'] = _shift_place(t['dst'], loff)
    if 'p' in t and isinstance(t['p'], dict):
        t['p'] = _shift_place(t['p'], loff)
    if 'value' in t and isinstance(t['value'], dict):
        t['value'] = _shift_op(t['value'], loff)
    if 'func' in t and isinstance(t['func'], dict) and 'p' in t['func']:
        t['func'] = _shift_op(t['func'], loff)
    return t


def _try_shape(caller, call):
    """(T, brk) when the call's result goes straight into `?`: target block T = `_b = Try::branch(move dst)`, followed by a
    switch on discriminant(_b) whose value-1 (Break) target is `brk`; else None"""
    T = call.get('target')
    if T is None or T >= len(caller.blocks):
        return None
    tb = caller.blocks[T]
    tt = tb['term']
    if tb['stmts'] or tt['k'] != 'call' or not ((_callee(tt) or '').endswith('Try::branch') or 'Try>::branch' in (_callee(tt) or '')) or not tt['args']:
        return None
    a = tt['args'][0]
    if 'p' not in a or a['p'] != call['dst']:
        return None
    N = tt.get('target')
    if N is None:
        return None
    nb = caller.blocks[N]
    nt = nb['term']
    if nt['k'] != 'switch' or len(nb['stmts']) != 1 or nb['stmts'][0]['rv']['k'] != 'discr' or nb['stmts'][0]['rv']['p'] != tt['dst']:
        return None
    tg = dict((v, t_) for v, t_ in nt['targets'])
    brk = tg.get(1)
    if brk is None and 0 in tg:
        brk = nt['otherwise']
    return (T, brk) if brk is not None else None


def _classify_exit(callee, P):
    """'err' / 'ok' / None for the function exit that runs through block P (a predecessor of the return block): what the
    last assignment to the return place on that straight-line chain produces"""
    preds = {}
    for i, blk in enumerate(callee.blocks):
        t = blk['term']
        for k in ('target',):
            if isinstance(t.get(k), int):
                preds.setdefault(t[k], []).append(i)
        for v, tg in t.get('targets', []):
            preds.setdefault(tg, []).append(i)
        if isinstance(t.get('otherwise'), int):
            preds.setdefault(t['otherwise'], []).append(i)
    seen = set()

    def go(cur, depth):
        """classification of every way into block `cur` that has not yet assigned the return place"""
        if depth > 14 or cur in seen:
            return None
        seen.add(cur)
        blk = callee.blocks[cur]
        for st in reversed(blk['stmts']):
            if st['dst']['l'] == 0 and not st['dst']['proj']:
                rv = st['rv']
                if rv['k'] == 'agg' and rv.get('vname') == 'Err':
                    return 'err'
                if rv['k'] == 'agg' and rv.get('vname') == 'Ok':
                    return 'ok'
                return None
        ps = preds.get(cur, [])
        if not ps:
            return None
        res = set()
        for p_ in ps:
            pt = callee.blocks[p_]['term']
            if pt['k'] == 'call' and isinstance(pt.get('dst'), dict) and pt['dst']['l'] == 0 and not pt['dst']['proj']:
                c_ = _callee(pt) or ''
                res.add('err' if (c_.endswith('FromResidual::from_residual') or 'FromResidual' in c_ and c_.endswith('from_residual')) else None)
            elif pt['k'] in ('goto', 'drop', 'call', 'assert'):
                res.add(go(p_, depth + 1))
            else:
                res.add(None)
        return list(res)[0] if len(res) == 1 else None
    return go(P, 0)


def _split_targs(fa):
    """'[meta::ContentProbe, u8]' -> ['meta::ContentProbe', 'u8'] (top-level commas); [] when absent / still generic"""
    if not fa or not fa.startswith('['):
        return []
    inner, depth, cur, out = fa[1:-1], 0, '', []
    for ch in inner:
        if ch in '<([':
            depth += 1
        elif ch in '>)]':
            depth -= 1
        if ch == ',' and depth == 0:
            out.append(cur.strip())
            cur = ''
        else:
            cur += ch
    if cur.strip():
        out.append(cur.strip())
    return out


def splice(caller, bb, callee):
    """inline `callee` at the call in block `bb` of `caller` (both facts.Body); mutates caller.locals / caller.blocks"""
    call = caller.blocks[bb]['term']
    loff = len(caller.locals)
    boff = len(caller.blocks)
    target = call.get('target')
    line = call.get('line')
    shape = _try_shape(caller, call)
    site_targs = _split_targs((call.get('func') or {}).get('fn_args'))
    # locals
    for l in callee.locals:
        caller.locals.append(dict(l))
    rets = [i for i, blk in enumerate(callee.blocks) if blk['term']['k'] == 'return']
    stubs = []      # (callee block P, return block R, classification)
    # blocks
    for i, blk in enumerate(callee.blocks):
        nb = {'stmts': [], 'cleanup': blk.get('cleanup', False), 'from': blk.get('from', callee.path)}
        for st in blk['stmts']:
            nb['stmts'].append(dict(st, dst=_shift_place(st['dst'], loff), rv=_shift_rv(st['rv'], loff)))
        t = blk['term']
        if t['k'] == 'return':
            if target is None:
                nb['term'] = {'k': 'unreachable', 'line': t.get('line'), 'col': t.get('col'), 'exp': False}
            else:
                nb['stmts'].append({'dst': call['dst'], 'rv': {'k': 'use', 'ops': [{'k': 'move', 'p': {'l': loff, 'proj': []}}]},
                                    'line': t.get('line'), 'col': t.get('col'), 'exp': False})
                nb['term'] = {'k': 'goto', 'target': target, 'line': t.get('line'), 'col': t.get('col'), 'exp': False}
        else:
            nb['term'] = _shift_term(t, loff, boff, None)
            if site_targs and nb['term'].get('k') == 'call' and '/#' in str((nb['term'].get('func') or {}).get('fn_args', '')):
                # the generic parameters of the helper are known at this call site: `<P as Probe>::probe` with P := ContentProbe
                fa = nb['term']['func']['fn_args']
                fa = re.sub(r'[A-Za-z_][A-Za-z0-9_]*/#(\d+)', lambda m: site_targs[int(m.group(1))] if int(m.group(1)) < len(site_targs) else m.group(0), fa)
                nb['term'] = dict(nb['term'], func=dict(nb['term']['func'], fn_args=fa))
        caller.blocks.append(nb)
    # `helper(..)?`: an exit of the helper that produces an error goes to the caller's error arm, not back through the
    # caller's test of the result (the merged return block would otherwise let "helper failed" reach "caller continues")
    if shape is not None and target is not None:
        T, brk = shape
        for R in rets:
            for P, blk in enumerate(callee.blocks):
                t = blk['term']
                if t['k'] in ('goto', 'drop') and t.get('target') == R and not callee.blocks[R]['stmts']:
                    if _classify_exit(callee, P) == 'err':
                        stub = {'stmts': [{'dst': call['dst'], 'rv': {'k': 'use', 'ops': [{'k': 'move', 'p': {'l': loff, 'proj': []}}]},
                                           'line': t.get('line'), 'col': t.get('col'), 'exp': False}],
                                'cleanup': False,
                                'term': {'k': 'goto', 'target': brk, 'line': t.get('line'), 'col': t.get('col'), 'exp': False, 'inlined_err_exit': True}}
                        caller.blocks.append(stub)
                        caller.blocks[boff + P]['term'] = dict(caller.blocks[boff + P]['term'], target=len(caller.blocks) - 1)
    # the call becomes: parameters := arguments; goto callee entry
    blk = caller.blocks[bb]
    for i, a in enumerate(call['args']):
        blk['stmts'].append({'dst': {'l': loff + 1 + i, 'proj': []}, 'rv': {'k': 'use', 'ops': [a]}, 'line': line, 'col': call.get('col'), 'exp': False})
    blk['term'] = {'k': 'goto', 'target': boff, 'line': line, 'col': call.get('col'), 'exp': False, 'inlined': callee.path,
                   'inlined_dst': call.get('dst'), 'inlined_args': list(call.get('args', []))}


THEN = ('core::bool::<impl bool>::then', 'std::bool::<impl bool>::then')
THEN_SOME = ('core::bool::<impl bool>::then_some', 'std::bool::<impl bool>::then_some')
_R, _O = 'std::result::Result::<T, E>::', 'std::option::Option::<T>::'
# combinator -> (position of the closure argument, {variant index: action}); actions:
#   ('call', wrap)  dst = wrap(closure(payload))      ('call0', wrap)  dst = wrap(closure())
#   ('pass', wrap)  dst = wrap(payload)               ('none',) dst = None      ('false',) dst = false      ('arg1', wrap) dst = wrap(args[1])
COMBINATORS = {
    _R + 'map': (2, {0: ('call', 'Ok', 1), 1: ('pass', 'Err')}),
    _R + 'map_err': (2, {0: ('pass', 'Ok'), 1: ('call', 'Err', 1)}),
    _R + 'and_then': (2, {0: ('call', None, 1), 1: ('pass', 'Err')}),
    _R + 'or_else': (2, {0: ('pass', 'Ok'), 1: ('call', None, 1)}),
    _R + 'unwrap_or_else': (2, {0: ('pass', None), 1: ('call', None, 1)}),
    _R + 'map_or_else': (3, {0: ('call', None, 2), 1: ('call', None, 1)}),
    _R + 'map_or': (3, {0: ('call', None, 2), 1: ('arg1', None)}),
    _R + 'is_ok_and': (2, {0: ('call', None, 1), 1: ('false',)}),
    _R + 'is_err_and': (2, {1: ('call', None, 1), 0: ('false',)}),
    _O + 'map': (2, {1: ('call', 'Some', 1), 0: ('none',)}),
    _O + 'and_then': (2, {1: ('call', None, 1), 0: ('none',)}),
    _O + 'unwrap_or_else': (2, {1: ('pass', None), 0: ('call0', None, 1)}),
    _O + 'ok_or_else': (2, {1: ('pass', 'Ok'), 0: ('call0', 'Err', 1)}),
    _O + 'or_else': (2, {1: ('pass', 'Some'), 0: ('call0', None, 1)}),
    _O + 'is_some_and': (2, {1: ('call', None, 1), 0: ('false',)}),
    _O + 'map_or': (3, {1: ('call', None, 2), 0: ('arg1', None)}),
    _O + 'map_or_else': (3, {1: ('call', None, 2), 0: ('call0', None, 1)}),
}
_WRAP = {'Ok': ('std::result::Result', 0), 'Err': ('std::result::Result', 1), 'Some': ('std::option::Option', 1)}
_VNAME = {('R', 0): 'Ok', ('R', 1): 'Err', ('O', 1): 'Some', ('O', 0): 'None'}
EFFECT_PREFIX = ('std::fs::', 'std::io::', 'std::process::', 'tokio::', 'fs2::', 'std::net::', 'std::os::', 'std::thread::', 'std::env::set')
CLOSURE_CALLS = ('std::ops::FnOnce::call_once', 'std::ops::Fn::call', 'std::ops::FnMut::call_mut')


def _generic_args(ty):
    """top-level generic arguments of `path<A, B>` (None when there are none)"""
    i = ty.find('<')
    if i < 0 or not ty.endswith('>'):
        return None
    depth, cur, out = 0, '', []
    for ch in ty[i + 1:-1]:
        if ch in '<([':
            depth += 1
        elif ch in '>)]':
            depth -= 1
        if ch == ',' and depth == 0:
            out.append(cur.strip())
            cur = ''
        else:
            cur += ch
    out.append(cur.strip())
    return out


def _option_payload(ty):
    if re.match(r'^(?:std|core)::option::Option<', ty or ''):
        a = _generic_args(ty)
        return a[0] if a and len(a) == 1 else None
    return None


def _effectful(F, path, _seen=None):
    """the closure (or a closure nested in it) performs a call that is an effect or leaves the closure: a crate-local fn, file /
    process / socket APIs, or a captured closure"""
    _seen = set() if _seen is None else _seen
    if path in _seen:
        return False
    _seen.add(path)
    for k, b in list(F.bodies.items()) + list(getattr(F, 'inlined', {}).items()):
        if k != path and not k.startswith(path + '::{'):
            continue
        for blk in b.blocks:
            t = blk['term']
            if t['k'] != 'call':
                continue
            c = _callee(t) or ''
            if c in F.bodies and '::{' not in c:
                return True
            if c.startswith(EFFECT_PREFIX) or c in CLOSURE_CALLS or t.get('inlined') or 'FileExt' in c:
                return True
        for blk in b.blocks:
            if blk['term'].get('inlined') or blk['term'].get('desugared'):
                return True
    return False


def _interesting(F, path):
    """worth unfolding: the closure performs effects, or builds a value of one of the crate's own types (a reply, an action, an error)"""
    if _effectful(F, path):
        return True
    for k, b in F.bodies.items():
        if k != path and not k.startswith(path + '::{'):
            continue
        for blk in b.blocks:
            for st in blk['stmts']:
                rv = st['rv']
                if rv['k'] == 'agg' and rv.get('ak') == 'adt' and not re.match(r'^(std|core|alloc)::', rv.get('adt', 'std::')):
                    return True
    return False


def _closure_of(F, b, op):
    """the body of the closure literal held by operand `op` (single definition in `b`), else None"""
    if op['k'] == 'const' or op['p']['proj']:
        return None
    defs = [st for blk in b.blocks for st in blk['stmts'] if st['dst'] == op['p'] and st['rv']['k'] == 'agg' and st['rv'].get('ak') == 'closure']
    alld = [st for blk in b.blocks for st in blk['stmts'] if st['dst']['l'] == op['p']['l']]
    if len(defs) != 1 or len(alld) != 1:
        return None
    from facts import norm
    cb = F.bodies.get(norm(defs[0]['rv']['def']))
    if cb is None or cb.kind != 'closure' or len(cb.blocks) > MAX_BLOCKS:
        return None
    return cb


def _agg(wrap, op):
    adt, v = _WRAP[wrap]
    return {'k': 'agg', 'ak': 'adt', 'adt': adt, 'variant': v, 'vname': wrap, 'fields': ['0'], 'ops': [op]}


def _retire_closure(F, clo_body, new_parent):
    for k, nbody in F.bodies.items():
        if nbody.parent == clo_body.path:
            nbody.parent = new_parent
    if not hasattr(F, 'inlined'):
        F.inlined = {}
    if clo_body.path in F.bodies:
        F.inlined[clo_body.path] = F.bodies.pop(clo_body.path)


def _emit_closure_call(F, b, owner_path, clo_op, clo_body, arg_ops, ret_ty, wrap, dst, target, pos):
    """blocks for  `dst = wrap(closure(args))`; returns the index of the entry block"""
    b.locals.append({'ty': ret_ty, 'name': None, 'user': False})
    tmp = {'l': len(b.locals) - 1, 'proj': []}
    val = {'k': 'move', 'p': tmp}
    b_wrap = len(b.blocks)
    b.blocks.append({'stmts': [dict(pos, dst=dst, rv=(_agg(wrap, val) if wrap else {'k': 'use', 'ops': [val]}))], 'cleanup': False,
                     'term': dict(pos, k='goto', target=target)})
    b_call = len(b.blocks)
    b.blocks.append({'stmts': [], 'cleanup': False,
                     'term': dict(pos, k='call', func={'k': 'const', 'fn': 'std::ops::FnOnce::call_once', 'dbg': 'desugared closure call'},
                                  args=[clo_op] + arg_ops, dst=tmp, target=b_wrap)})
    cal = type('B', (), {})()
    cal.locals, cal.blocks, cal.path = copy.deepcopy(clo_body.locals), copy.deepcopy(clo_body.blocks), clo_body.path
    splice(b, b_call, cal)
    b.blocks[b_call]['term']['desugared'] = True
    return b_call


def desugar(F):
    """Closure-taking combinators become the control flow they stand for, with the closure body spliced in:
      * `c.then(|| e)` / `c.then_some(v)`  ->  if c { Some(e) } else { None }           (always)
      * `r.and_then(f)`, `.map(f)`, `.map_err(f)`, `.or_else(f)`, `.unwrap_or_else(f)`, `.ok_or_else(f)`, `.is_some_and(f)`, `.map_or(d, f)`
        -> the equivalent `match`, when `f` is a closure literal that performs effects (file / process APIs, crate-local
        calls, a captured closure).  Pure closures (projections, formatting, arithmetic) stay combinators: the value rules
        read those as they are.
    Innermost closures first, so a chain `open(..).and_then(|f| f.sync_all().map(|()| ..))` unfolds completely."""
    done = []
    order = sorted(F.bodies, key=lambda k: (-k.count('::{'), k))
    for p in order:
        b = F.bodies.get(p)
        if b is None:
            continue
        bi = -1
        while bi + 1 < len(b.blocks):
            bi += 1
            t = b.blocks[bi]['term']
            if t['k'] != 'call' or t.get('target') is None or t['dst']['proj'] or not t.get('args') or t.get('exp'):
                continue        # (calls written by a macro / derive expansion are left alone)
            c = _callee(t)
            pos = {'line': t.get('line'), 'col': t.get('col'), 'exp': False}
            dst, target = t['dst'], t['target']
            if c in THEN or c in THEN_SOME:
                if len(t['args']) != 2:
                    continue
                payload = _option_payload(b.locals[dst['l']]['ty'])
                if payload is None:
                    continue
                cond, second = t['args']
                none = {'k': 'agg', 'ak': 'adt', 'adt': 'std::option::Option', 'variant': 0, 'vname': 'None', 'fields': [], 'ops': []}
                clo_body = None
                if c in THEN:
                    clo_body = _closure_of(F, b, second)
                    if clo_body is None or clo_body.argc != 1:
                        continue
                b_none = len(b.blocks)
                b.blocks.append({'stmts': [dict(pos, dst=dst, rv=none)], 'cleanup': False, 'term': dict(pos, k='goto', target=target)})
                if clo_body is None:
                    b_some = len(b.blocks)
                    b.blocks.append({'stmts': [dict(pos, dst=dst, rv=_agg('Some', second))], 'cleanup': False, 'term': dict(pos, k='goto', target=target)})
                else:
                    b_some = _emit_closure_call(F, b, p, second, clo_body, [], payload, 'Some', dst, target, pos)
                    _retire_closure(F, clo_body, p)
                b.blocks[bi]['term'] = dict(pos, k='switch', on=cond, targets=[[0, b_none]], otherwise=b_some, desugared=c.split('::')[-1])
                b._cfg_cache = None
                done.append((c.split('::')[-1], p))
                continue
            if c in ('std::option::Option::<std::option::Option<T>>::flatten', _O + 'flatten') and len(t['args']) == 1 and t['args'][0]['k'] != 'const' and not t['args'][0]['p']['proj']:
                # x.flatten()  ->  match x { Some(inner) => inner, None => None }
                recv = t['args'][0]
                inner_ty = _option_payload(b.locals[recv['p']['l']]['ty'])
                if inner_ty is None:
                    continue
                b.locals.append({'ty': 'isize', 'name': None, 'user': False})
                dl = {'l': len(b.locals) - 1, 'proj': []}
                none = {'k': 'agg', 'ak': 'adt', 'adt': 'std::option::Option', 'variant': 0, 'vname': 'None', 'fields': [], 'ops': []}
                payload_pl = {'l': recv['p']['l'], 'proj': [{'dc': 1, 'name': 'Some'}, {'f': 0, 'name': '0', 'ty': inner_ty}]}
                b_some = len(b.blocks)
                b.blocks.append({'stmts': [dict(pos, dst=dst, rv={'k': 'use', 'ops': [{'k': 'move', 'p': payload_pl}]})], 'cleanup': False, 'term': dict(pos, k='goto', target=target)})
                b_none = len(b.blocks)
                b.blocks.append({'stmts': [dict(pos, dst=dst, rv=none)], 'cleanup': False, 'term': dict(pos, k='goto', target=target)})
                b.blocks[bi]['stmts'].append(dict(pos, dst=dl, rv={'k': 'discr', 'p': {'l': recv['p']['l'], 'proj': []}}))
                b.blocks[bi]['term'] = dict(pos, k='switch', on={'k': 'move', 'p': dl}, targets=[[0, b_none]], otherwise=b_some, desugared='flatten')
                b._cfg_cache = None
                done.append(('flatten', p))
                continue
            if c in (_O + 'or', _O + 'and') and len(t['args']) == 2 and t['args'][0]['k'] != 'const' and not t['args'][0]['p']['proj']:
                # a.or(b)  ->  match a { Some(_) => a, None => b }        a.and(b)  ->  match a { Some(_) => b, None => None }
                recv, other = t['args']
                b.locals.append({'ty': 'isize', 'name': None, 'user': False})
                dl = {'l': len(b.locals) - 1, 'proj': []}
                none = {'k': 'agg', 'ak': 'adt', 'adt': 'std::option::Option', 'variant': 0, 'vname': 'None', 'fields': [], 'ops': []}
                take_recv = {'k': 'use', 'ops': [{'k': 'move', 'p': {'l': recv['p']['l'], 'proj': []}}]}
                take_other = {'k': 'use', 'ops': [other]}
                is_or = c.endswith('::or')
                b_some = len(b.blocks)
                b.blocks.append({'stmts': [dict(pos, dst=dst, rv=take_recv if is_or else take_other)], 'cleanup': False, 'term': dict(pos, k='goto', target=target)})
                b_none = len(b.blocks)
                b.blocks.append({'stmts': [dict(pos, dst=dst, rv=take_other if is_or else none)], 'cleanup': False, 'term': dict(pos, k='goto', target=target)})
                b.blocks[bi]['stmts'].append(dict(pos, dst=dl, rv={'k': 'discr', 'p': {'l': recv['p']['l'], 'proj': []}}))
                b.blocks[bi]['term'] = dict(pos, k='switch', on={'k': 'move', 'p': dl}, targets=[[0, b_none]], otherwise=b_some, desugared=c.split('::')[-1])
                b._cfg_cache = None
                done.append((c.split('::')[-1], p))
                continue
            if c == _O + 'filter' and len(t['args']) == 2:
                # opt.filter(|v| p(v))  ->  match opt { Some(v) if p(&v) => Some(v), _ => None }
                recv = t['args'][0]
                fcl = _closure_of(F, b, t['args'][1])
                pl = _option_payload(b.locals[recv['p']['l']]['ty']) if recv['k'] != 'const' and not recv['p']['proj'] else None
                if fcl is None or fcl.argc != 2 or pl is None or not _interesting(F, fcl.path):
                    continue        # (a pure predicate - `|&t| t > 0` - stays a `filter` call: the value rules report it as what it is)
                none = {'k': 'agg', 'ak': 'adt', 'adt': 'std::option::Option', 'variant': 0, 'vname': 'None', 'fields': [], 'ops': []}
                payload_pl = {'l': recv['p']['l'], 'proj': [{'dc': 1, 'name': 'Some'}, {'f': 0, 'name': '0', 'ty': pl}]}
                b.locals.append({'ty': 'isize', 'name': None, 'user': False})
                dl = {'l': len(b.locals) - 1, 'proj': []}
                b.locals.append({'ty': '&' + pl, 'name': None, 'user': False})
                rl = {'l': len(b.locals) - 1, 'proj': []}
                b.locals.append({'ty': 'bool', 'name': None, 'user': False})
                tl = {'l': len(b.locals) - 1, 'proj': []}
                b_none = len(b.blocks)
                b.blocks.append({'stmts': [dict(pos, dst=dst, rv=none)], 'cleanup': False, 'term': dict(pos, k='goto', target=target)})
                b_keep = len(b.blocks)
                b.blocks.append({'stmts': [dict(pos, dst=dst, rv=_agg('Some', {'k': 'move', 'p': payload_pl}))], 'cleanup': False, 'term': dict(pos, k='goto', target=target)})
                b_test = len(b.blocks)
                b.blocks.append({'stmts': [], 'cleanup': False, 'term': dict(pos, k='switch', on={'k': 'move', 'p': tl}, targets=[[0, b_none]], otherwise=b_keep, desugared='filter')})
                b_call = len(b.blocks)
                b.blocks.append({'stmts': [dict(pos, dst=rl, rv={'k': 'ref', 'mut': False, 'p': payload_pl})], 'cleanup': False,
                                 'term': dict(pos, k='call', func={'k': 'const', 'fn': 'std::ops::FnOnce::call_once', 'dbg': 'desugared closure call'},
                                              args=[t['args'][1], {'k': 'move', 'p': rl}], dst=tl, target=b_test)})
                cal = type('B', (), {})()
                cal.locals, cal.blocks, cal.path = copy.deepcopy(fcl.locals), copy.deepcopy(fcl.blocks), fcl.path
                splice(b, b_call, cal)
                _retire_closure(F, fcl, p)
                b.blocks[bi]['stmts'].append(dict(pos, dst=dl, rv={'k': 'discr', 'p': {'l': recv['p']['l'], 'proj': []}}))
                b.blocks[bi]['term'] = dict(pos, k='switch', on={'k': 'move', 'p': dl}, targets=[[0, b_none]], otherwise=b_call, desugared='filter')
                b._cfg_cache = None
                done.append(('filter', p))
                continue
            spec = COMBINATORS.get(c)
            if spec is None:
                continue
            nargs, actions = spec
            if len(t['args']) != nargs:
                continue
            recv = t['args'][0]
            if recv['k'] == 'const' or recv['p']['proj']:
                continue
            kind = 'R' if c.startswith(_R) else 'O'
            rty = b.locals[recv['p']['l']]['ty']
            ga = _generic_args(rty)
            if not ga or len(ga) != (2 if kind == 'R' else 1) or not re.match(r'^(?:std|core)::(?:result::Result|option::Option)<', rty):
                continue
            clos = {}
            good = True
            for v, act in actions.items():
                if act[0] in ('call', 'call0'):
                    cb_ = _closure_of(F, b, t['args'][act[2]])
                    if cb_ is None or cb_.argc != (2 if act[0] == 'call' else 1):
                        good = False
                    clos[act[2]] = cb_
            # (map_err closures only build the error value: unfolding them is always safe and lets `x.map_err(..)?` thread like `x?`)
            if not good or not (c == _R + 'map_err' or any(_interesting(F, cb_.path) for cb_ in clos.values())):
                continue
            b.locals.append({'ty': 'isize', 'name': None, 'user': False})
            dl = {'l': len(b.locals) - 1, 'proj': []}
            entry = {}
            for v, act in actions.items():
                pty = ga[v] if kind == 'R' else ga[0]
                payload = {'k': 'move', 'p': {'l': recv['p']['l'], 'proj': [{'dc': v, 'name': _VNAME[(kind, v)]}, {'f': 0, 'name': '0', 'ty': pty}]}}
                if act[0] in ('call', 'call0'):
                    cb_ = clos[act[2]]
                    entry[v] = _emit_closure_call(F, b, p, t['args'][act[2]], cb_, [payload] if act[0] == 'call' else [], cb_.locals[0]['ty'], act[1], dst, target, pos)
                else:
                    if act[0] == 'pass':
                        rv = _agg(act[1], payload) if act[1] else {'k': 'use', 'ops': [payload]}
                    elif act[0] == 'none':
                        rv = {'k': 'agg', 'ak': 'adt', 'adt': 'std::option::Option', 'variant': 0, 'vname': 'None', 'fields': [], 'ops': []}
                    elif act[0] == 'false':
                        rv = {'k': 'use', 'ops': [{'k': 'const', 'ty': 'bool', 'v': 0, 'dbg': 'false'}]}
                    else:
                        a1 = t['args'][1]
                        rv = _agg(act[1], a1) if act[1] else {'k': 'use', 'ops': [a1]}
                        # the default was built eagerly (`x.map_or(Ok(()), ..)`): rebuild it where it is used, so that "where
                        # the returned value is made" is the branch that returns it
                        if not act[1] and a1['k'] != 'const' and not a1['p']['proj']:
                            dfs = [st for blk2 in b.blocks for st in blk2['stmts'] if st['dst']['l'] == a1['p']['l']]
                            cfs = [1 for blk2 in b.blocks if blk2['term']['k'] == 'call' and blk2['term'].get('dst', {}).get('l') == a1['p']['l']]
                            if len(dfs) == 1 and not cfs and not dfs[0]['dst']['proj'] and dfs[0]['rv']['k'] == 'agg':
                                rv = copy.deepcopy(dfs[0]['rv'])
                    entry[v] = len(b.blocks)
                    b.blocks.append({'stmts': [dict(pos, dst=dst, rv=rv)], 'cleanup': False, 'term': dict(pos, k='goto', target=target)})
            for cb_ in clos.values():
                _retire_closure(F, cb_, p)
            b.blocks[bi]['stmts'].append(dict(pos, dst=dl, rv={'k': 'discr', 'p': {'l': recv['p']['l'], 'proj': []}}))
            b.blocks[bi]['term'] = dict(pos, k='switch', on={'k': 'move', 'p': dl}, targets=[[0, entry[0]]], otherwise=entry[1], desugared=c.split('::')[-1])
            b._cfg_cache = None
            done.append((c.split('::')[-1], p))
    return done


_IT = 'std::iter::Iterator::'
FUSE_ADAPTORS = {_IT + 'map': 'map', _IT + 'filter': 'filter', _IT + 'filter_map': 'filter_map', _IT + 'inspect': 'inspect'}
FUSE_CONSUMERS = {_IT + 'for_each': 'for_each', _IT + 'try_for_each': 'try_for_each', _IT + 'any': 'any', _IT + 'all': 'all',
                  _IT + 'find_map': 'find_map', _IT + 'find': 'find', _IT + 'fold': 'fold', _IT + 'collect': 'collect', _IT + 'try_fold': 'try_fold'}


def _def_call_block(b, op):
    """index of the block whose call terminator is the single definition of the (projection-free) local behind `op`"""
    if op['k'] == 'const' or op['p']['proj']:
        return None
    l = op['p']['l']
    hits = [i for i, blk in enumerate(b.blocks) if blk['term']['k'] == 'call' and blk['term'].get('dst') == {'l': l, 'proj': []}]
    stm = [1 for blk in b.blocks for st in blk['stmts'] if st['dst']['l'] == l]
    return hits[0] if len(hits) == 1 and not stm else None


def fuse_iterators(F):
    """`src.map(f).filter(p).filter_map(g) . for_each(h) | try_for_each(h) | any(p) | all(p) | find_map(g) | fold(init, h)`
    with closure literals becomes the `loop { match src.next() { .. } }` it stands for, the closures spliced into the loop
    body: every dominance / must-pass-through rule then reads the iterator spelling exactly like the `for` spelling."""
    done = []
    order = sorted(F.bodies, key=lambda k: (-k.count('::{'), k))
    for p in order:
        b = F.bodies.get(p)
        if b is None:
            continue
        bi = -1
        while bi + 1 < len(b.blocks):
            bi += 1
            t = b.blocks[bi]['term']
            if t['k'] != 'call' or t.get('target') is None or t['dst']['proj'] or not t.get('args') or t.get('exp'):
                continue
            cons = FUSE_CONSUMERS.get(_callee_fn(t))
            if cons is None:
                continue
            if len(t['args']) != (3 if cons in ('fold', 'try_fold') else 1 if cons == 'collect' else 2):
                continue
            cclo = _closure_of(F, b, t['args'][-1]) if cons != 'collect' else None
            if cclo is None and cons in ('for_each', 'try_for_each', 'any', 'all', 'find_map') and t['args'][-1]['k'] == 'const' and t['args'][-1].get('fn'):
                # a function item as the callable (`.try_for_each(std::fs::remove_dir)`): the closure `|x| f(x)` it stands for
                fop = t['args'][-1]
                cclo = type('FnItem', (), {})()
                rty = b.locals[t['dst']['l']]['ty'] if cons in ('try_for_each', 'find_map') else ('()' if cons == 'for_each' else 'bool')
                cclo.locals = [{'ty': rty, 'name': None, 'user': False}, {'ty': '()', 'name': None, 'user': False}, {'ty': '?', 'name': None, 'user': False}]
                pos_ = {'line': t.get('line'), 'col': t.get('col'), 'exp': False}
                cclo.blocks = [{'stmts': [], 'cleanup': False,
                                'term': dict(pos_, k='call', func={'k': 'const', 'fn': fop['fn'], 'dbg': fop.get('dbg', 'fn item')}, args=[{'k': 'move', 'p': {'l': 2, 'proj': []}}],
                                             dst={'l': 0, 'proj': []}, target=1)},
                               {'stmts': [], 'cleanup': False, 'term': dict(pos_, k='return')}]
                cclo.path = p + '::{fn-item:%s}' % fop['fn']
                cclo.argc = 2
                cclo.kind = 'closure'
                cclo.parent = p
            if cons == 'find' and cclo is not None:
                # a predicate that only compares (`|s| s.hash == h`) stays a `find` call - the value rules read that as it is;
                # one that looks things up (maps, nested searches, crate calls) is unfolded
                pure = True
                for blk_ in cclo.blocks:
                    t_ = blk_['term']
                    if t_ and t_['k'] == 'call':
                        c_ = _callee_fn(t_) or ''
                        if not (c_.startswith('std::cmp::') or c_ in ('std::ops::Deref::deref', 'std::convert::AsRef::as_ref', 'std::borrow::Borrow::borrow', 'std::clone::Clone::clone')):
                            pure = False
                if pure:
                    continue
            if cclo is None and cons != 'collect':
                continue
            if cons == 'collect' and not re.match(r'^(?:std|alloc)::vec::Vec<', b.locals[t['dst']['l']]['ty']):
                continue
            # walk back through fusable adaptors
            stages, dead = [], []
            src = t['args'][0]
            ok = True
            def _through_ref(op_):
                # `any` / `all` / `find_map` take `&mut self`: the receiver is `&mut <adaptor value>`
                if op_['k'] == 'const' or op_['p']['proj']:
                    return op_
                ds_ = [st for blk in b.blocks for st in blk['stmts'] if st['dst']['l'] == op_['p']['l']]
                cs_ = [1 for blk in b.blocks if blk['term']['k'] == 'call' and blk['term'].get('dst', {}).get('l') == op_['p']['l']]
                if len(ds_) == 1 and not cs_ and not ds_[0]['dst']['proj'] and ds_[0]['rv']['k'] == 'ref' and not ds_[0]['rv']['p']['proj']:
                    return {'k': 'move', 'p': {'l': ds_[0]['rv']['p']['l'], 'proj': []}}
                return op_
            src = _through_ref(src)
            while True:
                db = _def_call_block(b, src)
                if db is None:
                    break
                at = b.blocks[db]['term']
                kind = FUSE_ADAPTORS.get(_callee_fn(at))
                if kind is None or len(at['args']) != 2 or at.get('exp'):
                    break
                acl = _closure_of(F, b, at['args'][1])
                if acl is None or acl.argc != 2:
                    break
                stages.insert(0, (kind, at['args'][1], acl))
                dead.append(db)
                src = at['args'][0]
            if src['k'] == 'const' or src['p']['proj']:
                continue
            want = {'for_each': 2, 'try_for_each': 2, 'any': 2, 'all': 2, 'find_map': 2, 'find': 2, 'fold': 3, 'collect': 0, 'try_fold': 3}[cons]
            if cons == 'collect':
                if not stages or not any(k in ('map', 'filter_map') for k, _, _ in stages):
                    continue        # a bare `iter.collect()` builds the collection from the items as they are: nothing to unfold
            elif cclo.argc != want:
                continue
            dst, target = t['dst'], t['target']
            dty = b.locals[dst['l']]['ty']
            if cons == 'try_for_each' and not re.match(r'^(?:std|core)::result::Result<\(\), ', dty):
                continue
            if cons == 'try_fold' and not re.match(r'^(?:std|core)::result::Result<', dty):
                continue
            pos = {'line': t.get('line'), 'col': t.get('col'), 'exp': False}

            def newlocal(ty):
                b.locals.append({'ty': ty, 'name': None, 'user': False})
                return {'l': len(b.locals) - 1, 'proj': []}

            def newblock(stmts, term):
                b.blocks.append({'stmts': stmts, 'cleanup': False, 'term': term or dict(pos, k='unreachable')})
                return len(b.blocks) - 1

            def use(place):
                return {'k': 'use', 'ops': [{'k': 'move', 'p': place}]}
            first = stages[0][2] if stages else cclo
            if first is None:
                continue
            item_ty = first.locals[3 if (cons in ('fold', 'try_fold') and not stages) else 2]['ty']
            if (stages and stages[0][0] in ('filter', 'inspect')) or (not stages and cons == 'find'):
                item_ty = re.sub(r'^&', '', item_ty)
            elif not stages and cons in ():
                pass
            nx = newlocal('std::option::Option<%s>' % item_ty)
            rs = newlocal('&mut ' + b.locals[src['p']['l']]['ty'])
            H = newblock([dict(pos, dst=rs, rv={'k': 'ref', 'mut': True, 'p': {'l': src['p']['l'], 'proj': []}})],
                         dict(pos, k='call', func={'k': 'const', 'fn': 'std::iter::Iterator::next', 'dbg': 'fused iterator'}, args=[{'k': 'move', 'p': rs}], dst=nx, target=None, fused=True))
            dn = newlocal('isize')
            S = newblock([dict(pos, dst=dn, rv={'k': 'discr', 'p': nx})], None)
            b.blocks[H]['term']['target'] = S
            # exhausted
            if cons == 'try_for_each':
                unit = newlocal('()')
                erv = [dict(pos, dst=unit, rv={'k': 'use', 'ops': [{'k': 'const', 'ty': '()', 'dbg': '()'}]}), dict(pos, dst=dst, rv=_agg('Ok', {'k': 'move', 'p': unit}))]
            elif cons in ('any', 'all'):
                erv = [dict(pos, dst=dst, rv={'k': 'use', 'ops': [{'k': 'const', 'ty': 'bool', 'v': 1 if cons == 'all' else 0, 'dbg': 'true' if cons == 'all' else 'false'}]})]
            elif cons in ('find_map', 'find'):
                erv = [dict(pos, dst=dst, rv={'k': 'agg', 'ak': 'adt', 'adt': 'std::option::Option', 'variant': 0, 'vname': 'None', 'fields': [], 'ops': []})]
            elif cons == 'fold':
                acc = newlocal(dty)
                erv = [dict(pos, dst=dst, rv=use(acc))]
            elif cons == 'try_fold':
                acc = newlocal((_generic_args(dty) or ['?'])[0])
                erv = [dict(pos, dst=dst, rv=_agg('Ok', {'k': 'move', 'p': acc}))]
            elif cons == 'collect':
                erv = []
            else:
                erv = [dict(pos, dst=dst, rv={'k': 'use', 'ops': [{'k': 'const', 'ty': '()', 'dbg': '()'}]})]
            E = newblock(erv, dict(pos, k='goto', target=target))
            x = newlocal(item_ty)
            B0 = newblock([dict(pos, dst=x, rv=use({'l': nx['l'], 'proj': [{'dc': 1, 'name': 'Some'}, {'f': 0, 'name': '0', 'ty': item_ty}]}))], None)
            b.blocks[S]['term'] = dict(pos, k='switch', on={'k': 'move', 'p': dn}, targets=[[0, E]], otherwise=B0, fused=True)
            cur_block, cur_val, cur_ty = B0, x, item_ty
            retire = []

            def call_closure(block, clo_op, clo_body, args, ret_ty):
                """append `tmp = closure(args)` after `block` (which must have no terminator yet); returns (tmp, continuation block)"""
                tmp = newlocal(ret_ty)
                cont = newblock([], None)
                b.blocks[block]['term'] = dict(pos, k='call', func={'k': 'const', 'fn': 'std::ops::FnMut::call_mut', 'dbg': 'fused closure call'},
                                               args=[clo_op] + args, dst=tmp, target=cont)
                cal = type('B', (), {})()
                cal.locals, cal.blocks, cal.path = copy.deepcopy(clo_body.locals), copy.deepcopy(clo_body.blocks), clo_body.path
                splice(b, block, cal)
                retire.append(clo_body)
                return tmp, cont
            for kind, clo_op, acl in stages:
                rty = acl.locals[0]['ty']
                if kind == 'map':
                    tmp, cur_block = call_closure(cur_block, clo_op, acl, [{'k': 'move', 'p': cur_val}], rty)
                    cur_val, cur_ty = tmp, rty
                elif kind in ('filter', 'inspect'):
                    r = newlocal('&' + cur_ty)
                    b.blocks[cur_block]['stmts'].append(dict(pos, dst=r, rv={'k': 'ref', 'mut': False, 'p': cur_val}))
                    tmp, nb_ = call_closure(cur_block, clo_op, acl, [{'k': 'move', 'p': r}], rty)
                    if kind == 'filter':
                        nxt = newblock([], None)
                        b.blocks[nb_]['term'] = dict(pos, k='switch', on={'k': 'move', 'p': tmp}, targets=[[0, H]], otherwise=nxt, fused=True)
                        cur_block = nxt
                    else:
                        cur_block = nb_
                elif kind == 'filter_map':
                    tmp, nb_ = call_closure(cur_block, clo_op, acl, [{'k': 'move', 'p': cur_val}], rty)
                    pl = _option_payload(rty) or '?'
                    d2 = newlocal('isize')
                    b.blocks[nb_]['stmts'].append(dict(pos, dst=d2, rv={'k': 'discr', 'p': tmp}))
                    y = newlocal(pl)
                    nxt = newblock([dict(pos, dst=y, rv=use({'l': tmp['l'], 'proj': [{'dc': 1, 'name': 'Some'}, {'f': 0, 'name': '0', 'ty': pl}]}))], None)
                    b.blocks[nb_]['term'] = dict(pos, k='switch', on={'k': 'move', 'p': d2}, targets=[[0, H]], otherwise=nxt, fused=True)
                    cur_block, cur_val, cur_ty = nxt, y, pl
            cop = t['args'][-1]
            crty = cclo.locals[0]['ty'] if cclo is not None else None
            if cons == 'collect':
                rv_ = newlocal('&mut ' + dty)
                b.blocks[cur_block]['stmts'].append(dict(pos, dst=rv_, rv={'k': 'ref', 'mut': True, 'p': dst}))
                u_ = newlocal('()')
                b.blocks[cur_block]['term'] = dict(pos, k='call', func={'k': 'const', 'fn': 'std::vec::Vec::<T, A>::push', 'dbg': 'fused collect'},
                                                   args=[{'k': 'move', 'p': rv_}, {'k': 'move', 'p': cur_val}], dst=u_, target=H, fused=True)
            elif cons == 'fold':
                tmp, nb_ = call_closure(cur_block, cop, cclo, [{'k': 'move', 'p': acc}, {'k': 'move', 'p': cur_val}], crty)
                b.blocks[nb_]['stmts'].append(dict(pos, dst=acc, rv=use(tmp)))
                b.blocks[nb_]['term'] = dict(pos, k='goto', target=H)
            elif cons == 'try_fold':
                tmp, nb_ = call_closure(cur_block, cop, cclo, [{'k': 'move', 'p': acc}, {'k': 'move', 'p': cur_val}], crty)
                d3 = newlocal('isize')
                b.blocks[nb_]['stmts'].append(dict(pos, dst=d3, rv={'k': 'discr', 'p': tmp}))
                aty = b.locals[acc['l']]['ty']
                cont = newblock([dict(pos, dst=acc, rv=use({'l': tmp['l'], 'proj': [{'dc': 0, 'name': 'Ok'}, {'f': 0, 'name': '0', 'ty': aty}]}))], dict(pos, k='goto', target=H))
                brk = newblock([dict(pos, dst=dst, rv=use(tmp))], dict(pos, k='goto', target=target))
                b.blocks[nb_]['term'] = dict(pos, k='switch', on={'k': 'move', 'p': d3}, targets=[[0, cont]], otherwise=brk, fused=True)
            elif cons == 'find':
                # loop { x = next()?; if pred(&x) { break Some(x) } }
                r = newlocal('&' + cur_ty)
                b.blocks[cur_block]['stmts'].append(dict(pos, dst=r, rv={'k': 'ref', 'mut': False, 'p': cur_val}))
                tmp, nb_ = call_closure(cur_block, cop, cclo, [{'k': 'move', 'p': r}], crty)
                hit = newblock([dict(pos, dst=dst, rv=_agg('Some', {'k': 'move', 'p': cur_val}))], dict(pos, k='goto', target=target))
                b.blocks[nb_]['term'] = dict(pos, k='switch', on={'k': 'move', 'p': tmp}, targets=[[0, H]], otherwise=hit, fused=True)
            else:
                tmp, nb_ = call_closure(cur_block, cop, cclo, [{'k': 'move', 'p': cur_val}], crty)
                if cons == 'for_each':
                    b.blocks[nb_]['term'] = dict(pos, k='goto', target=H)
                elif cons == 'try_for_each':
                    d3 = newlocal('isize')
                    b.blocks[nb_]['stmts'].append(dict(pos, dst=d3, rv={'k': 'discr', 'p': tmp}))
                    brk = newblock([dict(pos, dst=dst, rv=use(tmp))], dict(pos, k='goto', target=target))
                    b.blocks[nb_]['term'] = dict(pos, k='switch', on={'k': 'move', 'p': d3}, targets=[[0, H]], otherwise=brk, fused=True)
                elif cons in ('any', 'all'):
                    hit = newblock([dict(pos, dst=dst, rv={'k': 'use', 'ops': [{'k': 'const', 'ty': 'bool', 'v': 1 if cons == 'any' else 0, 'dbg': 'true' if cons == 'any' else 'false'}]})],
                                   dict(pos, k='goto', target=target))
                    b.blocks[nb_]['term'] = dict(pos, k='switch', on={'k': 'move', 'p': tmp}, targets=[[0, H if cons == 'any' else hit]], otherwise=hit if cons == 'any' else H, fused=True)
                elif cons == 'find_map':
                    d3 = newlocal('isize')
                    b.blocks[nb_]['stmts'].append(dict(pos, dst=d3, rv={'k': 'discr', 'p': tmp}))
                    hit = newblock([dict(pos, dst=dst, rv=use(tmp))], dict(pos, k='goto', target=target))
                    b.blocks[nb_]['term'] = dict(pos, k='switch', on={'k': 'move', 'p': d3}, targets=[[0, H]], otherwise=hit, fused=True)
            # entry: the consumer call becomes `[acc = init;] goto H`; the adaptor calls become plain gotos
            if cons in ('fold', 'try_fold'):
                b.blocks[bi]['stmts'].append(dict(pos, dst=acc, rv={'k': 'use', 'ops': [t['args'][1]]}))
            if cons == 'collect':
                b.blocks[bi]['term'] = dict(pos, k='call', func={'k': 'const', 'fn': 'std::vec::Vec::<T>::new', 'dbg': 'fused collect'}, args=[], dst=dst, target=H, fused=cons)
            else:
                b.blocks[bi]['term'] = dict(pos, k='goto', target=H, fused=cons)
            for db in dead:
                at = b.blocks[db]['term']
                b.blocks[db]['term'] = dict(pos, k='goto', target=at['target'], fused='adaptor')
            for cb_ in retire:
                _retire_closure(F, cb_, p)
            b._cfg_cache = None
            done.append((cons, p))
    return done


def _map_place(p, lm):
    q = {'l': lm.get(p['l'], p['l']), 'proj': []}
    for e in p['proj']:
        if isinstance(e, dict) and 'idx' in e:
            e = dict(e, idx=lm.get(e['idx'], e['idx']))
        q['proj'].append(e)
    return q


def _map_op(op, lm):
    return dict(op, p=_map_place(op['p'], lm)) if 'p' in op else op


def _map_rv(rv, lm):
    rv = dict(rv)
    if 'p' in rv:
        rv['p'] = _map_place(rv['p'], lm)
    if 'ops' in rv:
        rv['ops'] = [_map_op(o, lm) for o in rv['ops']]
    return rv


def _map_term(t, lm, bm):
    t = dict(t)
    for k in ('target', 'otherwise'):
        if isinstance(t.get(k), int):
            t[k] = bm.get(t[k], t[k])
    if 'targets' in t:
        t['targets'] = [[v, bm.get(tg, tg)] for v, tg in t['targets']]
    for k in ('on', 'cond', 'value'):
        if isinstance(t.get(k), dict) and 'k' in t[k]:
            t[k] = _map_op(t[k], lm)
    if 'args' in t:
        t['args'] = [_map_op(a, lm) for a in t['args']]
    if isinstance(t.get('dst'), dict) and 'l' in t['dst']:
        t['dst'] = _map_place(t['dst'], lm)
    if isinstance(t.get('p'), dict) and 'l' in t['p']:
        t['p'] = _map_place(t['p'], lm)
    if isinstance(t.get('func'), dict) and 'p' in t['func']:
        t['func'] = _map_op(t['func'], lm)
    return t


def unroll_array_loops(b):
    """A fused loop over `[x, y].iter()` (an array literal of at most four elements) is unrolled: one copy of the loop body per
    element, the item being a reference to that element's own operand.  `scans.iter().all(|s| test(s))` over `[a, b]` is then
    `test(a) && test(b)` - which scan is consulted on which path becomes visible to the edge rules."""
    import cfg as _cfg
    changed = False
    for _round in range(6):
        did = False
        cf = _cfg.CFG(b)
        for H in range(len(b.blocks)):
            t = b.blocks[H]['term']
            if not t or t['k'] != 'call' or not t.get('fused') or (_callee(t) or '') != 'std::iter::Iterator::next' or H not in cf.reachable():
                continue
            stmts = b.blocks[H]['stmts']
            if len(stmts) != 1 or stmts[0]['rv']['k'] != 'ref' or stmts[0]['rv']['p']['proj']:
                continue
            src = stmts[0]['rv']['p']['l']
            elems = _array_elements_behind(b, src)
            if not elems or len(elems) > 4:
                continue
            S = t['target']
            st_ = b.blocks[S]['term']
            if st_['k'] != 'switch' or len(st_['targets']) != 1 or st_['targets'][0][0] != 0:
                continue
            E, B0 = st_['targets'][0][1], st_['otherwise']
            region = cf.loop_blocks(H) if hasattr(cf, 'loop_blocks') else None
            if not region or H not in region or S not in region or B0 not in region or E in region:
                continue
            body = sorted(region - {H, S})
            b0s = b.blocks[B0]['stmts']
            if not b0s or b0s[0]['rv']['k'] != 'use' or b0s[0]['rv']['ops'][0]['k'] == 'const' or b0s[0]['rv']['ops'][0]['p']['l'] != t['dst']['l']:
                continue
            x_local = b0s[0]['dst']['l']
            nx_local = t['dst']['l']
            # locals defined inside the body only are renamed per copy
            inside = set()
            for bi in body:
                for s_ in b.blocks[bi]['stmts']:
                    inside.add(s_['dst']['l'])
                tt = b.blocks[bi]['term']
                if tt and isinstance(tt.get('dst'), dict) and 'l' in tt['dst']:
                    inside.add(tt['dst']['l'])
            outside = set()
            for bi, blk in enumerate(b.blocks):
                if bi in region:
                    continue
                for s_ in blk['stmts']:
                    outside.add(s_['dst']['l'])
                tt = blk['term']
                if tt and isinstance(tt.get('dst'), dict) and 'l' in tt['dst']:
                    outside.add(tt['dst']['l'])
            rename = sorted(l for l in inside - outside if l > b.argc)
            pos = {'line': t.get('line'), 'col': t.get('col'), 'exp': False}
            entries = []
            copies = []
            for k, el in enumerate(elems):
                lm = {}
                for l in rename:
                    b.locals.append(dict(b.locals[l]))
                    lm[l] = len(b.locals) - 1
                bm = {}
                base = len(b.blocks)
                for j, bi in enumerate(body):
                    bm[bi] = base + j
                copies.append((lm, bm))
                for bi in body:
                    blk = b.blocks[bi]
                    nb = {'stmts': [dict(s_, dst=_map_place(s_['dst'], lm), rv=_map_rv(s_['rv'], lm)) for s_ in blk['stmts']], 'cleanup': blk.get('cleanup', False),
                          'term': _map_term(blk['term'], lm, bm)}
                    b.blocks.append(nb)
                # the item of this copy: a reference to a fresh local holding the element's operand
                ety = re.sub(r'^&', '', b.locals[x_local]['ty'])
                b.locals.append({'ty': ety, 'name': None, 'user': False})
                el_local = len(b.locals) - 1
                nb0 = b.blocks[bm[B0]]
                nb0['stmts'] = [dict(pos, dst={'l': el_local, 'proj': []}, rv={'k': 'use', 'ops': [dict(el, k='copy') if el['k'] != 'const' else el]}),
                                dict(pos, dst={'l': lm.get(x_local, x_local), 'proj': []}, rv={'k': 'ref', 'mut': False, 'p': {'l': el_local, 'proj': []}})] + nb0['stmts'][1:]
                entries.append(bm[B0])
            # back edges of copy k go to copy k+1 (the last one to the exhausted exit)
            for k, (lm, bm) in enumerate(copies):
                nxt = entries[k + 1] if k + 1 < len(entries) else E
                for bi in body:
                    nb = b.blocks[bm[bi]]
                    tt = nb['term']
                    for key in ('target', 'otherwise'):
                        if tt.get(key) == H:
                            tt[key] = nxt
                    if 'targets' in tt:
                        tt['targets'] = [[v, nxt if tg == H else tg] for v, tg in tt['targets']]
            # the loop head goes straight into the first copy
            b.blocks[H] = {'stmts': [], 'cleanup': False, 'term': dict(pos, k='goto', target=entries[0], unrolled=len(elems))}
            b._cfg_cache = None
            did = changed = True
            break
        if not did:
            break
    return changed


def _array_elements_behind(b, src):
    """operands of the array literal a `slice::iter()` / `into_iter()` source iterates over, through plain moves / refs"""
    def single_def(l):
        ds = [st for blk in b.blocks for st in blk['stmts'] if st['dst']['l'] == l]
        cs = [blk['term'] for blk in b.blocks if blk['term'] and blk['term']['k'] == 'call' and isinstance(blk['term'].get('dst'), dict) and blk['term']['dst'].get('l') == l]
        if len(ds) + len(cs) != 1:
            return None
        return ('st', ds[0]) if ds else ('call', cs[0])
    cur, hops = src, 0
    while hops < 10:
        hops += 1
        d = single_def(cur)
        if d is None:
            return None
        kind, x = d
        if kind == 'call':
            c = _callee_fn(x) or ''
            if (c.endswith('slice::<impl [T]>::iter') or c.endswith('IntoIterator::into_iter') or c.endswith('::iter')) and x['args'] and x['args'][0]['k'] != 'const':
                cur = x['args'][0]['p']['l']
                continue
            return None
        if x['dst']['proj']:
            return None
        rv = x['rv']
        if rv['k'] == 'agg' and rv.get('ak') == 'array':
            return list(rv['ops'])
        pl = rv['ops'][0]['p'] if rv['k'] in ('use', 'cast') and rv['ops'][0]['k'] != 'const' else rv['p'] if rv['k'] == 'ref' else None
        if pl is None:
            return None
        fields = [e for e in pl['proj'] if e != 'deref']
        if not fields:
            cur = pl['l']
            continue
        if len(fields) == 1 and isinstance(fields[0], dict) and 'f' in fields[0]:
            # a captured variable read through the environment of a spliced closure (or a tuple field): what it was built with
            d2 = single_def(pl['l'])
            while d2 is not None and d2[0] == 'st' and d2[1]['rv']['k'] in ('use', 'ref') and not d2[1]['dst']['proj']:
                q = d2[1]['rv']['ops'][0]['p'] if d2[1]['rv']['k'] == 'use' and d2[1]['rv']['ops'][0]['k'] != 'const' else d2[1]['rv'].get('p')
                if q is None or [e for e in q['proj'] if e != 'deref']:
                    break
                d2 = single_def(q['l'])
            if d2 is not None and d2[0] == 'st' and d2[1]['rv']['k'] == 'agg' and d2[1]['rv'].get('ak') in ('closure', 'tuple') and fields[0]['f'] < len(d2[1]['rv']['ops']):
                op2 = d2[1]['rv']['ops'][fields[0]['f']]
                if op2['k'] != 'const' and not [e for e in op2['p']['proj'] if e != 'deref']:
                    cur = op2['p']['l']
                    continue
        return None
    return None


def _closure_literal_behind(F, b, op, depth=0):
    """(closure body, operand to pass as the environment) when `op` is a closure literal of this body or a reference to one"""
    if op['k'] == 'const' or op['p']['proj'] or depth > 3:
        return None
    cb = _closure_of(F, b, op)
    if cb is not None:
        return cb
    l = op['p']['l']
    defs = [st for blk in b.blocks for st in blk['stmts'] if st['dst']['l'] == l]
    calls = [1 for blk in b.blocks if blk['term']['k'] == 'call' and blk['term'].get('dst', {}).get('l') == l]
    if len(defs) == 1 and not calls and not defs[0]['dst']['proj']:
        rv = defs[0]['rv']
        if rv['k'] == 'ref' and not rv['p']['proj']:
            return _closure_literal_behind(F, b, {'k': 'copy', 'p': {'l': rv['p']['l'], 'proj': []}}, depth + 1)
        if rv['k'] == 'use' and rv['ops'][0]['k'] != 'const' and not rv['ops'][0]['p']['proj']:
            return _closure_literal_behind(F, b, rv['ops'][0], depth + 1)
    return None


def splice_local_closure_calls(F):
    """`let check = |a, b| ..; check(x, y)?` : a closure literal called by name in the body that defines it is spliced at its
    call sites like a private helper (arguments arrive as one tuple: parameter i is field i of it)"""
    done = []
    order = sorted(F.bodies, key=lambda k: (-k.count('::{'), k))
    for p in order:
        b = F.bodies.get(p)
        if b is None:
            continue
        sites = {}
        for bi, blk in enumerate(b.blocks):
            t = blk['term']
            if t['k'] != 'call' or re.sub(r'\bcopia::', '', t.get('func', {}).get('fn') or '') not in CLOSURE_CALLS or len(t.get('args', [])) != 2 or t.get('exp') or t.get('desugared'):
                continue
            cb = _closure_literal_behind(F, b, t['args'][0])
            if cb is None or cb.path not in F.bodies:
                continue
            tup = t['args'][1]
            n = cb.argc - 1
            if tup['k'] == 'const':
                if n != 0:
                    continue
                args = []
            else:
                if tup['p']['proj']:
                    continue
                tty = b.locals[tup['p']['l']]['ty']
                args = [{'k': 'move', 'p': {'l': tup['p']['l'], 'proj': [{'f': i, 'name': '', 'ty': cb.locals[2 + i]['ty']}]}} for i in range(n)]
                if n == 0 and tty != '()':
                    continue
            sites.setdefault(cb.path, []).append((bi, args))
        for cpath, ss in sites.items():
            cb = F.bodies[cpath]
            if len(ss) > MAX_SITES or len(cb.blocks) > MAX_BLOCKS:
                continue
            for bi, args in sorted(ss, key=lambda x: -x[0]):
                t = b.blocks[bi]['term']
                b.blocks[bi]['term'] = dict(t, args=[t['args'][0]] + args)
                cal = type('B', (), {})()
                cal.locals, cal.blocks, cal.path = copy.deepcopy(cb.locals), copy.deepcopy(cb.blocks), cb.path
                splice(b, bi, cal)
            _retire_closure(F, cb, p)
            b._cfg_cache = None
            done.append(('closure-call', p))
    return done


def _two_variant(ty):
    return bool(re.match(r'^&*(?:mut )?(?:std|core)::(?:result::Result|option::Option|ops::ControlFlow)<', ty or ''))


def fold_const_switches(b):
    """A `switchInt` on a local whose only definition in the whole body is a constant (or a copy of such a local) goes one
    way: the shape a spliced helper leaves when it was called with a literal (`Landing::new(dst, true)` -> `if stage {..}`).
    The other arm becomes unreachable.  A block that tests a constant it assigned itself (`cfg!(debug_assertions)`) stays as
    written - the panic rules recognise debug-only assertions by that very test."""
    ndefs, cdef = {}, {}
    for bi, blk in enumerate(b.blocks):
        for st in blk['stmts']:
            d = st['dst']
            ndefs[d['l']] = ndefs.get(d['l'], 0) + 1
            if not d['proj']:
                cdef[d['l']] = (bi, st['rv'])
        t = blk['term']
        if t['k'] == 'call' and isinstance(t.get('dst'), dict):
            ndefs[t['dst']['l']] = ndefs.get(t['dst']['l'], 0) + 2
    def value(l, depth=0):
        if depth > 4 or ndefs.get(l, 0) != 1 or l not in cdef or 1 <= l <= getattr(b, 'argc', 0):
            return None
        bi, rv = cdef[l]
        if rv['k'] != 'use':
            return None
        o = rv['ops'][0]
        if o['k'] == 'const':
            return (o['v'], bi) if 'v' in o else None
        if o['p']['proj']:
            return None
        r = value(o['p']['l'], depth + 1)
        return r
    changed = False
    for bi, blk in enumerate(b.blocks):
        t = blk['term']
        if t['k'] != 'switch' or t['on']['k'] == 'const' or t['on']['p']['proj']:
            continue
        r = value(t['on']['p']['l'])
        if r is None:
            continue
        v, defbb = r
        if defbb == bi:
            continue
        v = int(v) if isinstance(v, bool) else v
        if not isinstance(v, int):
            continue
        tgt = t['otherwise']
        for tv, tb in t['targets']:
            if tv == v:
                tgt = tb
        blk['term'] = {'k': 'goto', 'target': tgt, 'line': t.get('line'), 'col': t.get('col'), 'exp': t.get('exp', False), 'folded': True}
        changed = True
    if changed:
        b._cfg_cache = None
    return changed


def thread_jumps(b, rounds=4):
    """Exact jump threading with duplication: a block that knows the constant / enum variant of a local - because it has just
    assigned it, or because it is entered only through the switch edge that tested it - and then runs, through gotos,
    statement-only blocks and `Try::branch`, into a `switchInt` on that value (or on its discriminant) goes straight to the
    target the switch would pick; the statements (and the `Try::branch` calls) on the way are copied.  Removes the infeasible
    paths that splicing creates ("the closure returned Err" -> "the caller's test of the result says Ok")."""
    changed_any = False
    for _ in range(rounds):
        changed = False
        preds = {}
        for i, blk in enumerate(b.blocks):
            t = blk['term']
            succs = []
            if t['k'] == 'switch':
                succs = [(tb, tv) for tv, tb in t['targets']] + [(t['otherwise'], 'otherwise')]
            elif isinstance(t.get('target'), int):
                succs = [(t['target'], None)]
            for tb, lab in succs:
                preds.setdefault(tb, []).append((i, lab))
        for bi in range(len(b.blocks)):
            blk = b.blocks[bi]
            t = blk['term']
            residual = t['k'] == 'call' and ((_callee(t) or '').endswith('from_residual')) and isinstance(t.get('dst'), dict) and not t['dst']['proj']
            if (t['k'] not in ('goto', 'drop') and not residual) or t.get('threaded') or t.get('target') is None:
                continue
            known = {}
            if residual:
                # `?` hands the residual on: the value it builds is the failure variant of the return type
                rty = b.locals[t['dst']['l']]['ty']
                if re.match(r'^(?:std|core)::result::Result<', rty):
                    known[t['dst']['l']] = ('variant', 1)
                elif re.match(r'^(?:std|core)::option::Option<', rty):
                    known[t['dst']['l']] = ('variant', 0)
                else:
                    continue
            # what the only way into this block has established
            ps = preds.get(bi, [])
            if len(ps) == 1 and ps[0][1] is not None:
                P, lab = ps[0]
                pt = b.blocks[P]['term']
                if pt['k'] == 'switch' and pt['on']['k'] != 'const' and not pt['on']['p']['proj']:
                    D = pt['on']['p']['l']
                    val = lab
                    if lab == 'otherwise':
                        listed = [tv for tv, _ in pt['targets']]
                        val = 1 if listed == [0] else 0 if listed == [1] else None
                    src = [st for st in b.blocks[P]['stmts'] if st['dst']['l'] == D and not st['dst']['proj']]
                    if val is not None and len(src) == 1 and src[0]['rv']['k'] == 'discr' and not src[0]['rv']['p']['proj']:
                        X = src[0]['rv']['p']['l']
                        if lab != 'otherwise' or _two_variant(b.locals[X]['ty']):
                            known[X] = ('variant', val)
                    elif val is not None and lab != 'otherwise' and b.locals[D]['ty'] == 'bool':
                        known[D] = ('const', val)

            def absorb(st):
                d = st['dst']
                if d['proj']:
                    known.pop(d['l'], None)
                    return
                rv = st['rv']
                val = None
                if rv['k'] == 'agg' and rv.get('ak') == 'adt' and 'variant' in rv:
                    val = ('variant', rv['variant'])
                elif rv['k'] == 'use' and rv['ops'][0]['k'] == 'const' and 'v' in rv['ops'][0]:
                    val = ('const', rv['ops'][0]['v'])
                elif rv['k'] == 'use' and rv['ops'][0]['k'] != 'const' and not rv['ops'][0]['p']['proj']:
                    val = known.get(rv['ops'][0]['p']['l'])
                elif rv['k'] == 'discr' and not rv['p']['proj']:
                    kv = known.get(rv['p']['l'])
                    if kv and kv[0] == 'variant':
                        val = ('const', kv[1])
                elif rv['k'] == 'un' and rv['op'] == 'Not' and rv['ops'][0]['k'] != 'const' and not rv['ops'][0]['p']['proj']:
                    kv = known.get(rv['ops'][0]['p']['l'])
                    if kv and kv[0] == 'const' and kv[1] in (0, 1, True, False):
                        val = ('const', 0 if kv[1] else 1)
                if val is None:
                    known.pop(d['l'], None)
                else:
                    known[d['l']] = val
            if not residual:
                for st in blk['stmts']:
                    absorb(st)
            if not known:
                continue
            cur, hops, resolved = t['target'], 0, None
            segs = [{'stmts': [], 'term': None}]
            while hops < 16 and cur is not None and cur != bi:
                hops += 1
                cb = b.blocks[cur]
                own_consts = {st['dst']['l'] for st in cb['stmts'] if not st['dst']['proj'] and st['rv']['k'] == 'use' and st['rv']['ops'][0]['k'] == 'const'}
                for st in cb['stmts']:
                    absorb(st)
                    segs[-1]['stmts'].append(dict(st))
                ct = cb['term']
                if ct['k'] == 'switch' and ct['on']['k'] != 'const' and not ct['on']['p']['proj'] and ct['on']['p']['l'] in own_consts:
                    # `if cfg!(debug_assertions)` and its like: the block tests its own constant. It stays as written - the
                    # panic rules recognise a debug-only assertion by this very test
                    break
                if ct['k'] == 'goto':
                    cur = ct['target']
                    continue
                if ct['k'] == 'drop' and ct.get('target') is not None:
                    # a drop on the way is kept (copied): it is part of what runs between the assignment and the test
                    dl_ = ct.get('p', {}).get('l') if isinstance(ct.get('p'), dict) else None
                    if dl_ is not None:
                        known.pop(dl_, None)
                    segs[-1]['term'] = dict(ct, threaded=True)
                    segs.append({'stmts': [], 'term': None})
                    cur = ct['target']
                    continue
                if ct['k'] == 'call' and ct.get('target') is not None and ct.get('args') and not ct['dst']['proj'] and \
                        ((_callee(ct) or '').endswith('Try::branch') or 'Try>::branch' in (_callee(ct) or '')):
                    a0 = ct['args'][0]
                    kv = known.get(a0['p']['l']) if a0['k'] != 'const' and not a0['p']['proj'] else None
                    aty = b.locals[a0['p']['l']]['ty'] if kv else ''
                    if kv and kv[0] == 'variant' and re.match(r'^(?:std|core)::(?:result::Result|option::Option)<', aty):
                        is_res = 'result::Result<' in aty
                        cont = (kv[1] == 0) if is_res else (kv[1] == 1)
                        known[ct['dst']['l']] = ('variant', 0 if cont else 1)
                        segs[-1]['term'] = dict(ct, threaded=True)        # target patched below
                        segs.append({'stmts': [], 'term': None})
                        cur = ct['target']
                        continue
                    break
                if ct['k'] == 'switch' and ct['on']['k'] != 'const' and not ct['on']['p']['proj']:
                    kv = known.get(ct['on']['p']['l'])
                    if kv and kv[0] == 'const':
                        v = int(kv[1]) if isinstance(kv[1], bool) else kv[1]
                        resolved, via = ct['otherwise'], [cur, 'otherwise']
                        for tv, tb in ct['targets']:
                            if tv == v:
                                resolved, via = tb, [cur, tv]
                break
            if resolved is None:
                continue
            base = len(b.blocks)
            for i, sg in enumerate(segs):
                if sg['term'] is None:
                    sg['term'] = {'k': 'goto', 'target': resolved, 'line': t.get('line'), 'col': t.get('col'), 'exp': False, 'threaded': True, 'threaded_via': via}
                else:
                    sg['term'] = dict(sg['term'], target=base + i + 1)
                b.blocks.append({'stmts': sg['stmts'], 'cleanup': False, 'term': sg['term']})
            blk['term'] = dict(t, target=base, threaded=True)
            changed = changed_any = True
        if not changed:
            break
    if changed_any:
        b._cfg_cache = None
    return changed_any


def _split_tuple_ty(ty):
    """'(u64, &[u8])' -> ['u64', '&[u8]'] (top-level commas only); None when `ty` is not a tuple of 2..4 fields"""
    ty = ty.strip()
    if not (ty.startswith('(') and ty.endswith(')')) or ty == '()':
        return None
    parts, depth, cur = [], 0, ''
    for ch in ty[1:-1]:
        if ch in '(<[{':
            depth += 1
        elif ch in ')>]}':
            depth -= 1
        if ch == ',' and depth == 0:
            parts.append(cur.strip())
            cur = ''
        else:
            cur += ch
    if cur.strip():
        parts.append(cur.strip())
    return parts if 2 <= len(parts) <= 4 else None


def sroa_tuples(b):
    """Scalar replacement of tuple temporaries: a tuple-typed local that is only ever built whole (`t = (x, y)`), moved whole
    into another such local and read field by field becomes one local per field.  `fold((0, 0), |(a, b), x| (a + .., b + ..))`
    after fusion is then the two-accumulator loop it stands for."""
    cand = {}
    for i, l in enumerate(b.locals):
        if i <= b.argc:
            continue
        parts = _split_tuple_ty(l['ty'])
        if parts:
            cand[i] = parts
    if not cand:
        return False
    bad = set()
    parent = {i: i for i in cand}

    def find(x):
        while parent[x] != x:
            parent[x] = parent[parent[x]]
            x = parent[x]
        return x

    def whole(op):
        return op['k'] != 'const' and not op['p']['proj'] and op['p']['l'] in cand

    def field_first(pl):
        return bool(pl['proj']) and isinstance(pl['proj'][0], dict) and 'f' in pl['proj'][0]

    def visit_place_read(pl):
        if pl['l'] in cand and not field_first(pl):
            bad.add(pl['l'])
        for e in pl['proj']:
            if isinstance(e, dict) and 'idx' in e and e['idx'] in cand:
                bad.add(e['idx'])

    def visit_op(op):
        if op['k'] != 'const':
            visit_place_read(op['p'])
    for blk in b.blocks:
        for st in blk['stmts']:
            d, rv = st['dst'], st['rv']
            if d['l'] in cand and not d['proj']:
                if st.get('exp'):
                    bad.add(d['l'])        # built by a macro expansion (format_args!): its shape is what the string rules read
                    continue
                if rv['k'] == 'agg' and rv.get('ak') == 'tuple' and len(rv['ops']) == len(cand[d['l']]):
                    for o in rv['ops']:
                        visit_op(o)
                    continue
                if rv['k'] == 'use' and whole(rv['ops'][0]) and cand[rv['ops'][0]['p']['l']] == cand[d['l']]:
                    x, y = find(d['l']), find(rv['ops'][0]['p']['l'])
                    parent[x] = y
                    continue
                bad.add(d['l'])
            elif d['l'] in cand and not field_first(d):
                bad.add(d['l'])
            for e in d['proj']:
                if isinstance(e, dict) and 'idx' in e and e['idx'] in cand:
                    bad.add(e['idx'])
            if rv['k'] in ('ref', 'discr', 'rawptr', 'len'):
                if 'p' in rv:
                    visit_place_read(rv['p'])
            for o in rv.get('ops', []):
                visit_op(o)
        t = blk['term']
        if t is None:
            continue
        for key in ('args',):
            for o in t.get(key, []) or []:
                visit_op(o)
        for key in ('on', 'cond', 'func'):
            if isinstance(t.get(key), dict) and 'k' in t[key]:
                visit_op(t[key])
        if isinstance(t.get('dst'), dict) and t['dst'].get('l') in cand and not field_first(t['dst']):
            bad.add(t['dst']['l'])
        if isinstance(t.get('p'), dict) and t['p'].get('l') in cand:
            bad.add(t['p']['l'])
        if t['k'] == 'assert':
            txt = json.dumps(t)
            for i in cand:
                if ('"l": %d,' % i) in txt or ('"l": %d}' % i) in txt:
                    if not (isinstance(t.get('cond'), dict) and t['cond'].get('k') != 'const' and t['cond']['p']['l'] == i and field_first(t['cond']['p'])):
                        bad.add(i)
    badroots = {find(i) for i in bad}
    split = {i for i in cand if find(i) not in badroots}
    # a group must have at least one whole tuple construction to be worth splitting
    built = set()
    for blk in b.blocks:
        for st in blk['stmts']:
            if st['dst']['l'] in split and not st['dst']['proj'] and st['rv']['k'] == 'agg':
                built.add(find(st['dst']['l']))
    split = {i for i in split if find(i) in built}
    if not split:
        return False
    newl = {}
    for i in sorted(split):
        newl[i] = []
        for k, ty in enumerate(cand[i]):
            b.locals.append({'ty': ty, 'name': '%s.%d' % (b.locals[i].get('name') or '_%d' % i, k), 'user': False})
            newl[i].append(len(b.locals) - 1)

    def rw_place(pl):
        if pl['l'] in split and field_first(pl):
            k = pl['proj'][0]['f']
            return {'l': newl[pl['l']][k], 'proj': list(pl['proj'][1:])}
        return pl

    def rw_op(op):
        if op['k'] == 'const':
            return op
        return dict(op, p=rw_place(op['p']))
    for blk in b.blocks:
        out = []
        for st in blk['stmts']:
            d, rv = st['dst'], st['rv']
            if d['l'] in split and not d['proj']:
                if rv['k'] == 'agg':
                    for k, o in enumerate(rv['ops']):
                        out.append(dict(st, dst={'l': newl[d['l']][k], 'proj': []}, rv={'k': 'use', 'ops': [rw_op(o)]}))
                else:
                    srcl = rv['ops'][0]['p']['l']
                    for k in range(len(cand[d['l']])):
                        out.append(dict(st, dst={'l': newl[d['l']][k], 'proj': []},
                                        rv={'k': 'use', 'ops': [{'k': rv['ops'][0]['k'], 'p': {'l': newl[srcl][k], 'proj': []}}]}))
                continue
            st = dict(st, dst=rw_place(d))
            rv = dict(rv)
            if 'ops' in rv:
                rv['ops'] = [rw_op(o) for o in rv['ops']]
            if 'p' in rv and isinstance(rv['p'], dict):
                rv['p'] = rw_place(rv['p'])
            st['rv'] = rv
            out.append(st)
        blk['stmts'] = out
        t = blk['term']
        if t is None:
            continue
        t = dict(t)
        if t.get('args'):
            t['args'] = [rw_op(o) for o in t['args']]
        for key in ('on', 'cond', 'func'):
            if isinstance(t.get(key), dict) and 'k' in t[key]:
                t[key] = rw_op(t[key])
        if isinstance(t.get('dst'), dict) and 'l' in t['dst']:
            t['dst'] = rw_place(t['dst'])
        blk['term'] = t
    b._cfg_cache = None
    return True


def _fill_variant_summaries(F):
    """cfg.FN_VARIANT: small crate functions every return of which builds the same variant of an enum"""
    import cfg as _cfg
    _cfg.FN_VARIANT.clear()
    everything = dict(F.bodies)
    everything.update(getattr(F, 'inlined', {}) or {})
    for p, b in everything.items():
        if b.kind != 'fn' or len(b.blocks) > 40 or '::tests' in p:
            continue
        variants = set()
        other = False
        for blk in b.blocks:
            for st in blk['stmts']:
                if st['dst']['l'] == 0 and not st['dst']['proj']:
                    rv = st['rv']
                    if rv['k'] == 'agg' and rv.get('ak') == 'adt' and 'variant' in rv:
                        variants.add(rv['variant'])
                    else:
                        other = True
            t = blk['term']
            if t and t['k'] == 'call' and isinstance(t.get('dst'), dict) and t['dst'].get('l') == 0:
                other = True
        if len(variants) == 1 and not other:
            _cfg.FN_VARIANT[p] = list(variants)[0]


def _plain_delegation_target(F, c, sites):
    """`impl TryFrom<u8> for T { fn try_from(..) {..} }` + `fn from_u8(v) -> .. { T::try_from(v) }`: the trait method of a std
    conversion trait (From / TryFrom / FromStr / Default) whose only callers are crate functions of the same type's module"""
    m = re.match(r'^<(.+) as (std|core)::(convert::(TryFrom|TryInto)|str::FromStr)(<.*>)?>::\w+$', c)
    if not m:
        return False
    self_ty = m.group(1)
    mod = self_ty.rsplit('::', 1)[0] if '::' in self_ty else ''
    return bool(mod) and all(p.startswith(mod + '::') for p, _ in sites) and len(sites) <= 2


def devirtualize(F):
    """A call of a crate-local trait method inside (a spliced copy of) a generic helper - `base.base_of(p)` with `base: &B`,
    `B: BaseSource` - is resolved to the impl of the concrete type the receiver was built with at this call site
    (`&TrustedBase(base)` / `&NoBase`), when that type is visible in the caller.  -> number of calls resolved"""
    from facts import norm
    traits = {i['trait'] for i in F.impls if i.get('crate') and not re.match(r'^(std|core|alloc|serde|tokio|blake3|bincode|clap|tracing)\b', i['trait'])}
    traits = {t for t in traits if re.match(r'^[a-z_][a-z0-9_]*(::[A-Za-z_][A-Za-z0-9_]*)+$', t)}
    if not traits:
        return 0
    impls = {}      # (trait, method) -> [(self type without generics, body path)]
    for p_ in list(F.bodies) + list(getattr(F, 'inlined', {}) or {}):
        m = re.match(r'^<(.+) as ([a-z_][A-Za-z0-9_:]*)(?:<.*>)?>::([A-Za-z_][A-Za-z0-9_]*)$', p_)
        if m and m.group(2) in traits:
            impls.setdefault((m.group(2), m.group(3)), []).append((re.sub(r"<.*$", '', m.group(1)).lstrip('&').strip(), p_))
    n = 0
    for p, b in F.bodies.items():
        for bi, blk in enumerate(b.blocks):
            t = blk['term']
            if not t or t['k'] != 'call' or t.get('devirt'):
                continue
            f = t.get('func', {})
            c = norm(f.get('fn')) if f.get('fn') else None
            if not c or '::' not in c:
                continue
            tr, meth = c.rsplit('::', 1)
            if tr not in traits or (tr, meth) not in impls:
                continue
            # the concrete type behind the receiver: follow plain moves / borrows back to a local of a crate type
            cur, hops, ty = (t['args'][0] if t.get('args') else {'k': 'const'}), 0, None
            while hops < 12 and cur['k'] != 'const' and not [e for e in cur['p']['proj'] if e != 'deref']:
                hops += 1
                lty = re.sub(r"<.*$", '', b.locals[cur['p']['l']]['ty'].replace('&', '').replace('mut ', '').strip())
                if any(lty == st for st, _ in impls[(tr, meth)]):
                    ty = lty
                    break
                ds = [st for blk2 in b.blocks for st in blk2['stmts'] if st['dst']['l'] == cur['p']['l'] and not st['dst']['proj']]
                if len(ds) != 1:
                    break
                rv = ds[0]['rv']
                if rv['k'] in ('use', 'cast') and rv['ops'][0]['k'] != 'const':
                    cur = rv['ops'][0]
                elif rv['k'] == 'ref':
                    cur = {'k': 'copy', 'p': rv['p']}
                else:
                    break
            if ty is None:
                # an associated function without a receiver (`P::probe(path)`): the Self type is the first generic argument,
                # known once the generic helper was spliced at a call site that names it
                ta = _split_targs(f.get('fn_args'))
                if ta and '/#' not in ta[0]:
                    t0 = re.sub(r"<.*$", '', ta[0].replace('&', '').strip())
                    if any(t0 == st for st, _ in impls[(tr, meth)]):
                        ty = t0
            if ty is None:
                continue
            cands = [bp for st, bp in impls[(tr, meth)] if st == ty]
            if len(cands) != 1:
                continue
            blk['term'] = dict(t, func=dict(f, fn_resolved=cands[0]), devirt=True)
            n += 1
    return n


_BASELINE = None


def _baseline():
    global _BASELINE
    if _BASELINE is None:
        import json
        p_ = os.path.join(os.path.dirname(os.path.abspath(__file__)), 'baseline_functions.json')
        _BASELINE = set(json.load(open(p_))) if os.path.exists(p_) else set()
    return _BASELINE


def select(F):
    """{callee path: [(caller path, bb)]} of the helpers to splice"""
    anc = anchors()
    import semantic_anchors
    anc = anc | semantic_anchors.protected(F)
    sites = {}
    for p, b in F.bodies.items():
        for bi, blk in enumerate(b.blocks):
            t = blk['term']
            if t['k'] == 'call':
                c = _callee(t)
                if c in F.bodies:
                    sites.setdefault(c, []).append((p, bi))
    out = {}
    for c, ss in sites.items():
        cb = F.bodies[c]
        if cb.kind != 'fn' or (cb.pub and not _plain_delegation_target(F, c, ss)) or c in anc or len(cb.blocks) > MAX_BLOCKS or not (1 <= len(ss) <= MAX_SITES):
            continue
        if any(x in c for x in ('::{', '<impl')):
            continue        # generic impl items: part of an interface, not an extracted helper
        devirt_only = all(F.bodies[p_].blocks[bi_]['term'].get('devirt') for p_, bi_ in ss)
        if (' as ' in c or c.startswith('<')) and not _plain_delegation_target(F, c, ss) and not devirt_only:
            continue        # trait methods stay, unless an inherent fn merely delegates to a std conversion trait implemented next to it
                            # (or every call of it was resolved from a generic helper's receiver type: devirtualize)
        if 'generated_contracts' in cb.file or cb.path.split('::')[-1].startswith('test'):
            continue
        if any(F.bodies[p].file != cb.file for p, _ in ss) and c in _baseline():
            continue        # (a helper that did not exist when the rules were written is spliced wherever it lives: a new module
                            # holding a cursor / view type is still an extracted helper)
        if any(p == c or p.startswith(c + '::{') for p, _ in ss):
            continue        # recursive
        # an async fn's body is a coroutine constructor: leave it
        if any(k.startswith(c + '::{') and F.bodies[k].kind == 'coroutine' and F.bodies[k].parent == c and len(cb.blocks) <= 2 for k in F.bodies):
            continue
        out[c] = ss
    return out


def apply(F, log=None):
    """inline the selected helpers (innermost first, up to three rounds); returns the list of spliced (callee, caller)"""
    done = [('%s()' % k, p) for k, p in splice_local_closure_calls(F) + fuse_iterators(F) + desugar(F)]
    # (a closure called by name inside an adaptor closure - `let recorded = |p| ..; iter.map(|x| f(recorded(p)))` - becomes a local
    # call once the adaptor chain is a loop: second pass)
    done += [('%s()' % k, p) for k, p in splice_local_closure_calls(F) + desugar(F)]
    for _ in range(4):
        devirtualize(F)
        sel = select(F)
        if not sel:
            break
        # innermost first: a helper that itself calls another selected helper waits a round
        ready = {c: ss for c, ss in sel.items() if not any(p.split('::{')[0] in sel and p.split('::{')[0] != c for p in [c])}
        progressed = False
        for c, ss in sorted(ready.items()):
            cb = F.bodies[c]
            calls_selected = any(blk['term']['k'] == 'call' and _callee(blk['term']) in sel and _callee(blk['term']) != c for blk in cb.blocks)
            if calls_selected:
                continue
            snapshot = copy.deepcopy({'locals': cb.locals, 'blocks': cb.blocks})
            for p, bi in sorted(ss, key=lambda x: -x[1]):
                caller = F.bodies[p]
                tmp = type('B', (), {})()
                tmp.locals, tmp.blocks, tmp.path = copy.deepcopy(snapshot['locals']), copy.deepcopy(snapshot['blocks']), c
                splice(caller, bi, tmp)
                caller._cfg_cache = None
                done.append((c, p))
                progressed = True
            # the helper is no longer called: take it out of the enumerable bodies (F.body() still resolves it) and hang the
            # closures defined in it under the first caller, whose copy of the closure aggregate carries the captures
            first_caller = sorted(ss)[0][0]
            for k, nbody in F.bodies.items():
                if nbody.parent == c:
                    nbody.parent = first_caller
            if not hasattr(F, 'inlined'):
                F.inlined = {}
            F.inlined[c] = F.bodies.pop(c)
        if not progressed:
            break
    for p_ in sorted({p for _, p in done}):
        if p_ in F.bodies:
            unroll_array_loops(F.bodies[p_])
            sroa_tuples(F.bodies[p_])
            fold_const_switches(F.bodies[p_])
            thread_jumps(F.bodies[p_])
    _fill_variant_summaries(F)
    if done:
        # flows / CFGs computed while selecting (semantic anchors) describe the bodies before the splice
        import flow as _flow
        import semantic_anchors as _sa
        _flow._flow_cache.clear()
        _sa._cache.clear()
        try:
            import callgraph as _cg
            _cg._cg_cache.clear()
        except Exception:
            pass
    if log is not None and done:
        log('inlined helper(s): %s' % ', '.join('%s -> %s' % (c.split('::')[-1], p.split('::')[-1]) for c, p in done))
    return done
