class NoVerdict(Exception):
    """anchor missing / undecided construct: the checker no longer sees what it was written for."""
