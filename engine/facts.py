"""Fact loading (driver JSON -> Python objects) and pretty printing.

Paths are normalised into one namespace: the library crate's items appear as
`sync::CopiaSync::...` in its own facts and as `copia::sync::CopiaSync::...` when
referenced from the binary crate; the leading `copia::` is stripped so both agree.
"""
import json
import os
import re

_COPIA_RE = re.compile(r'\bcopia::')


_ALIASES = []      # [(compiled regex, replacement)]: inline modules flattened into the file module that contains them


def norm(path):
    if path is None:
        return None
    path = _COPIA_RE.sub('', path)
    if '<impl ' in path:
        path = _IMPL_RE.sub(lambda m: m.group(1) + '::', path)
        if ' for ' in path and not path.startswith(('std::', 'core::', 'alloc::')):
            path = _TRAIT_IMPL_RE.sub(lambda m: '<%s as %s>::' % (m.group(2), m.group(1)), path)
    for rx, rep in _ALIASES:
        path = rx.sub(rep, path)
    return path


# `serve::<impl std::convert::From<serve::Refusal> for wire::Response>::from` (how a body of a trait impl for a foreign type is
# named) is `<wire::Response as std::convert::From<serve::Refusal>>::from` (how a call to it is named)
_TRAIT_IMPL_RE = re.compile(r'(?<![A-Za-z0-9_:])(?:[a-z_][a-z0-9_]*::)+<impl ((?:[^<>]|<[^<>]*>)+?) for ((?:[^<>]|<[^<>]*>)+?)>::')
_IMPL_RE = re.compile(r'(?<![A-Za-z0-9_:])(?!(?:core|std|alloc)::)(?:[a-z_][a-z0-9_]*::)+<impl ([a-z_][a-z0-9_]*::[A-Za-z_][A-Za-z0-9_:]*)>::')


def _pre(path):
    """`delta_check::<impl delta::Delta>::validate` (an inherent impl block placed in another module) is `delta::Delta::validate`"""
    path = _COPIA_RE.sub('', path)
    return _IMPL_RE.sub(lambda m: m.group(1) + '::', path)


_BASE_NAMES = None


def _baseline_names():
    global _BASE_NAMES
    if _BASE_NAMES is None:
        import json
        p_ = os.path.join(os.path.dirname(os.path.abspath(__file__)), 'baseline_functions.json')
        _BASE_NAMES = set(json.load(open(p_))) if os.path.exists(p_) else set()
    return _BASE_NAMES


def set_moved_item_aliases(raw_bodies, raw_adts):
    """An item the rules name (`wire::cas_decide`, `bidir::copy_atomic`, `protocol::MessageType`) that was moved to another
    module or file of the crate (and re-exported, so callers compile unchanged) keeps the name the rules know: when the named
    path has no definition any more and exactly one item of the crate has the same final name (`Type` / `Type::method` /
    `function`), that item's path is mapped back."""
    try:
        import inline
        anchors = inline.anchors()
    except Exception:
        return
    paths = set()
    for rb in raw_bodies:
        q = _pre(rb['path'])
        for rx, rep in _ALIASES:
            q = rx.sub(rep, q)
        paths.add(q)
    adts = set()
    for a in raw_adts:
        q = _pre(a['path'])
        for rx, rep in _ALIASES:
            q = rx.sub(rep, q)
        adts.add(q)
    tops = {q.split('::{')[0] for q in paths}
    crate_mods = {t.split('::')[0] for t in tops if not t.startswith('<')} - {'std', 'core', 'alloc'}
    done = set()
    for A in sorted(anchors):
        if not re.match(r'^[A-Za-z_][A-Za-z0-9_]*(::[A-Za-z_][A-Za-z0-9_]*)+$', A):
            continue
        if A.split('::')[0] not in crate_mods and not A[:1].isupper():
            continue        # a path of std / a dependency, not an item of this crate (`Type::method` = an item of the crate root)
        if A in tops or A in adts or any(t.startswith(A + '::') for t in tops):
            continue
        segs = A.split('::')
        if len(segs) == 2 and segs[0][:1].isupper() and not segs[1][:1].isupper() and A not in _baseline_names():
            continue        # `Type::method` shorthand in a rule, not the path of an item at the crate root
        if (len(segs) >= 3 and segs[-2][:1].isupper()) or (len(segs) == 2 and segs[0][:1].isupper() and not segs[1][:1].isupper()):
            # Type::method: the type moved - map the type (all its methods follow)
            key, old_item, is_type = '::'.join(segs[-2:]), '::'.join(segs[:-1]), True
        elif segs[-1][:1].isupper():
            key, old_item, is_type = segs[-1], A, True
        else:
            key, old_item, is_type = segs[-1], A, False
        if is_type:
            tname = old_item.split('::')[-1]
            cands = sorted({t for t in adts if t.split('::')[-1] == tname and t != old_item and '::tests' not in t})
            if len(cands) != 1 or old_item in adts:
                continue
            Q = cands[0]
        else:
            # (a free function stays a free function: a method `Type::parse` is not the moved `mod::parse`)
            cands = sorted({t for t in tops if t.split('::')[-1] == key and t != A and '::tests' not in t and not t.startswith('<') and '<' not in t
                            and not (len(t.split('::')) >= 2 and t.split('::')[-2][:1].isupper())})
            if len(cands) != 1:
                continue
            Q = cands[0]
        if (Q, old_item) in done:
            continue
        done.add((Q, old_item))
        _ALIASES.append((re.compile(r'(?<![A-Za-z0-9_:])' + re.escape(Q) + r'(?![A-Za-z0-9_])'), old_item))


def _file_module(f):
    """module path a source file stands for: src/bin/copia/serve.rs -> serve, src/delta.rs -> delta (crate roots -> None)"""
    m = re.match(r'^src/(?:bin/[^/]+/)?(.+)\.rs$', f or '')
    if not m:
        return None
    parts = m.group(1).split('/')
    if parts[-1] == 'mod':
        parts = parts[:-1]
    if not parts or parts == ['main'] or parts == ['lib']:
        return None
    return '::'.join(parts)


def set_inline_module_aliases(raw_bodies):
    """`mod paths { pub(super) fn safe_join .. }` inside serve.rs: the items keep the names they would have without the inner
    module (serve::paths::safe_join -> serve::safe_join) when that is unambiguous - moving a private function into a nested
    module of the same file changes no behaviour and must not move an anchor."""
    del _ALIASES[:]
    paths = {_COPIA_RE.sub('', rb['path']) for rb in raw_bodies}
    found = set()
    for rb in raw_bodies:
        P = _COPIA_RE.sub('', rb['path'])
        fm = _file_module(rb.get('file'))
        if not fm or not P.startswith(fm + '::') or P.startswith('<'):
            continue
        segs = P[len(fm) + 2:].split('::')
        prefix = fm
        for sgm in segs[:-1]:
            if not re.match(r'^[a-z_][a-z0-9_]*$', sgm) or sgm == 'tests' or (prefix + '::' + sgm) in paths:
                break
            found.add((prefix, sgm))
            prefix = prefix + '::' + sgm
            break      # one level is what a refactor introduces; deeper nesting keeps its inner names
    for prefix, sgm in sorted(found):
        old_p, new_p = '%s::%s::' % (prefix, sgm), prefix + '::'
        moved = [x for x in paths if x.startswith(old_p)]
        if any((new_p + x[len(old_p):]) in paths for x in moved):
            continue        # would collide with an item of the outer module
        _ALIASES.append((re.compile(r'(?<![A-Za-z0-9_:])' + re.escape(old_p)), new_p))


class Body:
    __slots__ = ('path', 'kind', 'parent', 'file', 'lo', 'hi', 'argc', 'locals', 'upvars',
                 'blocks', 'crate', 'pub', 'cfg', '_cfg_cache', 'raw')

    def __init__(self, raw, crate, cfg):
        self.raw = raw
        self.path = norm(raw['path'])
        self.kind = raw['kind']
        self.parent = norm(raw['parent'])
        self.file = raw['file']
        self.lo = raw['lo']
        self.hi = raw['hi']
        self.argc = raw['argc']
        self.locals = raw['locals']
        self.upvars = {f: n for f, n in raw['upvars']}
        self.blocks = raw['blocks']
        self.crate = crate
        self.pub = raw.get('pub', False)
        self.cfg = cfg
        self._cfg_cache = None

    def local_name(self, l):
        return self.locals[l].get('name')

    def local_ty(self, l):
        return self.locals[l]['ty']

    def locals_named(self, name):
        return [i for i, l in enumerate(self.locals) if l.get('name') == name]

    def __repr__(self):
        return '<Body %s>' % self.path


class Facts:
    """All facts of one configuration (lib + optional bin crate)."""

    def __init__(self, cfg, directory):
        self.cfg = cfg
        self.dir = directory
        self.bodies = {}
        self.consts = {}
        self.adts = {}
        self.impls = []
        self.formats = []
        self.crates = []
        self.inlined = {}
        loaded = []
        for fn in sorted(os.listdir(directory)):
            if not fn.endswith('.json'):
                continue
            with open(os.path.join(directory, fn)) as fh:
                loaded.append(json.load(fh))
        set_inline_module_aliases([rb for d in loaded for rb in d['bodies']])
        set_moved_item_aliases([rb for d in loaded for rb in d['bodies']], [a for d in loaded for a in d['adts']])
        for d in loaded:
            crate = 'bin' if 'Executable' in d['crate_types'] else 'lib'
            self.crates.append(crate)
            for rb in d['bodies']:
                b = Body(rb, crate, cfg)
                self.bodies[b.path] = b
            for k, v in d['consts'].items():
                v = dict(v)
                v['crate'] = crate
                self.consts[norm(k)] = v
            for a in d['adts']:
                a = dict(a)
                a['path'] = norm(a['path'])
                a['crate'] = crate
                self.adts[a['path']] = a
            for i in d['impls']:
                self.impls.append({'trait': norm(i['trait']), 'self': norm(i['self']), 'crate': crate})
            for f in d['formats']:
                f = dict(f)
                f['crate'] = crate
                self.formats.append(f)

    # ---- lookup helpers
    def body(self, path):
        b = self.bodies.get(path)
        if b is None and getattr(self, 'inlined', None):
            b = self.inlined.get(path)      # a helper spliced into its callers (inline.py)
        return b

    def nested(self, path):
        """`path` and every body nested in it (closures, coroutines), outermost first."""
        out = []
        if path in self.bodies:
            out.append(self.bodies[path])
        pre = path + '::{'
        out.extend(b for p, b in sorted(self.bodies.items()) if p.startswith(pre))
        # closures of helpers that were spliced into `path` (inline.py re-parents them)
        if getattr(self, 'inlined', None):
            have = {b.path for b in out}
            changed = True
            while changed:
                changed = False
                for p, b in sorted(self.bodies.items()):
                    if p not in have and b.parent in have and b.parent != p and not p.startswith(b.parent + '::{'):
                        out.append(b)
                        have.add(p)
                        changed = True
                    elif p not in have and any(p.startswith(h + '::{') for h in have if h != path and h in self.bodies and not h.startswith(pre)):
                        out.append(b)
                        have.add(p)
                        changed = True
        return out

    def bodies_in_file(self, suffix):
        return [b for b in self.bodies.values() if b.file.endswith(suffix)]

    def body_at(self, file_suffix, line):
        """Innermost body containing (file, line)."""
        best = None
        for b in self.bodies.values():
            if b.file.endswith(file_suffix) and b.lo <= line <= b.hi:
                if best is None or (b.hi - b.lo) <= (best.hi - best.lo):
                    # prefer the innermost; ties -> deeper path
                    if best is None or (b.hi - b.lo) < (best.hi - best.lo) or len(b.path) > len(best.path):
                        best = b
        return best

    def children(self, path):
        return [b for b in self.bodies.values() if b.parent == path]


# ---------------------------------------------------------------- operand / place helpers

def callee(term):
    """Normalised declared path of a call terminator's callee, or None for indirect calls."""
    if term['k'] != 'call':
        return None
    f = term['func']
    if f['k'] == 'const' and 'fn' in f:
        return norm(f['fn'])
    return None


def callee_resolved(term):
    if term['k'] != 'call':
        return None
    f = term['func']
    if f['k'] == 'const' and 'fn' in f:
        return norm(f.get('fn_resolved') or f['fn'])
    return None


def callee_args(term):
    f = term['func']
    return norm(f.get('fn_args', '')) if f['k'] == 'const' else ''


def is_place(op):
    return op['k'] in ('copy', 'move')


def op_local(op):
    """Local of a place operand (ignoring projections), else None."""
    if op['k'] in ('copy', 'move'):
        return op['p']['l']
    return None


def const_val(op):
    if op['k'] == 'const':
        if 'v' in op:
            return op['v']
        if 's' in op:
            return op['s']
        if 'bytes' in op:
            return bytes(op['bytes'])
    return None


# ---------------------------------------------------------------- pretty printing

def fmt_place(p, body=None):
    s = '_%d' % p['l']
    if body is not None:
        n = body.local_name(p['l'])
        if n:
            s += '<%s>' % n
    for e in p['proj']:
        if e == 'deref':
            s = '(*%s)' % s
        elif e == 'opaque':
            s = '%s as opaque' % s
        elif 'f' in e:
            s = '%s.%s' % (s, e['name'] or e['f'])
        elif 'idx' in e:
            s = '%s[_%d]' % (s, e['idx'])
        elif 'cidx' in e:
            s = '%s[%s%d]' % (s, '-' if e['from_end'] else '', e['cidx'])
        elif 'sub' in e:
            s = '%s[%d..%s%d]' % (s, e['sub'][0], '-' if e['from_end'] else '', e['sub'][1])
        elif 'dc' in e:
            s = '(%s as %s)' % (s, e['name'] or e['dc'])
    return s


def fmt_op(o, body=None):
    if o['k'] in ('copy', 'move'):
        return ('move ' if o['k'] == 'move' else '') + fmt_place(o['p'], body)
    if o['k'] == 'const':
        if 'fn' in o:
            return 'fn ' + norm(o['fn'])
        if 'v' in o:
            return 'const %s:%s' % (o['v'], o['ty'])
        if 's' in o:
            return 'const %r' % o['s']
        return o.get('dbg', 'const ?')
    return o['k']


def fmt_rv(rv, body=None):
    k = rv['k']
    if k == 'use':
        return fmt_op(rv['ops'][0], body)
    if k == 'ref':
        return ('&mut ' if rv['mut'] else '&') + fmt_place(rv['p'], body)
    if k == 'rawptr':
        return '&raw ' + fmt_place(rv['p'], body)
    if k == 'cast':
        return '%s as %s (%s)' % (fmt_op(rv['ops'][0], body), rv['ty'], rv['ck'])
    if k == 'bin':
        return '%s(%s, %s)' % (rv['op'], fmt_op(rv['ops'][0], body), fmt_op(rv['ops'][1], body))
    if k == 'un':
        return '%s(%s)' % (rv['op'], fmt_op(rv['ops'][0], body))
    if k == 'discr':
        return 'discriminant(%s)' % fmt_place(rv['p'], body)
    if k == 'repeat':
        return '[%s; %s]' % (fmt_op(rv['ops'][0], body), rv['n'])
    if k == 'agg':
        ops = ', '.join(fmt_op(o, body) for o in rv['ops'])
        ak = rv['ak']
        if ak == 'adt':
            return '%s::%s{%s}' % (norm(rv['adt']), rv['vname'], ops)
        if ak in ('closure', 'coroutine'):
            return '%s %s [%s]' % (ak, norm(rv['def']), ops)
        return '%s(%s)' % (ak, ops)
    return rv.get('dbg', k)


def fmt_term(t, body=None):
    k = t['k']
    if k == 'goto':
        return 'goto -> bb%d' % t['target']
    if k == 'switch':
        return 'switchInt(%s) -> [%s, otherwise: bb%d]' % (
            fmt_op(t['on'], body), ', '.join('%d: bb%d' % (v, b) for v, b in t['targets']), t['otherwise'])
    if k == 'call':
        return '%s = %s(%s) -> %s' % (
            fmt_place(t['dst'], body), fmt_op(t['func'], body),
            ', '.join(fmt_op(a, body) for a in t['args']),
            'bb%d' % t['target'] if t['target'] is not None else '!')
    if k == 'drop':
        return 'drop(%s) -> bb%d' % (fmt_place(t['p'], body), t['target'])
    if k == 'assert':
        return 'assert(%s == %s, %s) -> bb%d' % (fmt_op(t['cond'], body), t['expected'], t['msg'], t['target'])
    if k == 'yield':
        return 'yield(%s) -> bb%d' % (fmt_op(t['value'], body), t['target'])
    return k


def dump_body(b, out=None):
    import sys
    out = out or sys.stdout
    out.write('fn %s [%s] %s:%d-%d argc=%d parent=%s\n' % (b.path, b.kind, b.file, b.lo, b.hi, b.argc, b.parent))
    for i, l in enumerate(b.locals):
        if l.get('name') or i <= b.argc:
            out.write('  let _%d: %s  // %s\n' % (i, l['ty'], l.get('name')))
    if b.upvars:
        out.write('  upvars: %s\n' % b.upvars)
    for i, blk in enumerate(b.blocks):
        out.write('  bb%d%s:\n' % (i, ' (cleanup)' if blk['cleanup'] else ''))
        for s in blk['stmts']:
            out.write('    %s = %s;  // L%d\n' % (fmt_place(s['dst'], b), fmt_rv(s['rv'], b), s['line']))
        out.write('    %s;  // L%d\n' % (fmt_term(blk['term'], b), blk['term']['line']))


if __name__ == '__main__':
    import sys
    cfgdir, pat = sys.argv[1], sys.argv[2]
    F = Facts(os.path.basename(cfgdir.rstrip('/')), cfgdir)
    for p, b in sorted(F.bodies.items()):
        if pat in p:
            dump_body(b)
            print()
