"""Per-body control-flow primitives: successors, reachability, dominators, edge dominance (ED),
natural loops.  Edges are (src_block, dst_block, label) where label is the switch value,
'otherwise', or None."""
from collections import deque


def term_succs(term):
    """[(target, label)] for a terminator."""
    k = term['k']
    if k == 'goto':
        return [(term['target'], None)]
    if k == 'switch':
        out = [(b, v) for v, b in term['targets']]
        out.append((term['otherwise'], 'otherwise'))
        return out
    if k in ('call', 'drop', 'assert', 'yield'):
        t = term.get('target')
        return [(t, None)] if t is not None else []
    return []


class CFG:
    def __init__(self, body):
        self.body = body
        self.n = len(body.blocks)
        self.succ = [term_succs(b['term']) for b in body.blocks]
        # constant switch folding (exact): `L = const v; switchInt(L)` in one block (cfg!(debug_assertions) etc.)
        for bi, blk in enumerate(body.blocks):
            t = blk['term']
            if t['k'] != 'switch':
                continue
            val = None
            if t['on']['k'] == 'const':
                val = t['on'].get('v')
            elif not t['on']['p']['proj']:
                L = t['on']['p']['l']
                for st in blk['stmts']:
                    if st['dst']['l'] == L:
                        rv = st['rv']
                        if not st['dst']['proj'] and rv['k'] == 'use' and rv['ops'][0]['k'] == 'const' and 'v' in rv['ops'][0]:
                            val = rv['ops'][0]['v']
                        else:
                            val = None
            if val is None:
                continue
            tgt = t['otherwise']
            for v, b2 in t['targets']:
                if v == val:
                    tgt = b2
            self.succ[bi] = [(tgt, None)]
        # jump threading (exact): `L = const v; goto T` where T is an empty block `switchInt(L)` goes
        # straight to T's target for v (the shape of `matches!(..)`, `a && b`, `if let .. else`).
        self.threaded = {}     # (T, label) -> [B...]
        for bi, blk in enumerate(body.blocks):
            t = blk['term']
            if t['k'] != 'goto':
                continue
            T = t['target']
            tb = body.blocks[T]
            tt = tb['term']
            if tb['stmts'] or tt['k'] != 'switch' or tt['on']['k'] == 'const' or tt['on']['p']['proj']:
                continue
            L = tt['on']['p']['l']
            val = None
            for st in blk['stmts']:
                if st['dst']['l'] == L:
                    rv = st['rv']
                    if not st['dst']['proj'] and rv['k'] == 'use' and rv['ops'][0]['k'] == 'const' and 'v' in rv['ops'][0]:
                        val = rv['ops'][0]['v']
                    else:
                        val = None
            if val is None:
                continue
            tgt, lab = tt['otherwise'], 'otherwise'
            for v, b2 in tt['targets']:
                if v == val:
                    tgt, lab = b2, v
            self.succ[bi] = [(tgt, None)]
            self.threaded.setdefault((T, lab), []).append((bi, tgt))
        self.pred = [[] for _ in range(self.n)]
        for s, outs in enumerate(self.succ):
            for t, lab in outs:
                self.pred[t].append((s, lab))
        self._reach0 = None
        self._dom = None

    # ---- reachability
    def reach(self, start=0, cut_edges=(), cut_blocks=()):
        """Blocks reachable from `start` without traversing `cut_edges` ((s,t) or (s,t,label))
        or entering `cut_blocks`."""
        cut2 = set()
        cut3 = set()
        for e in cut_edges:
            if len(e) == 2:
                cut2.add(tuple(e))
            else:
                cut3.add(tuple(e))
        cutb = set(cut_blocks)
        if start in cutb:
            return set()
        seen = {start}
        dq = deque([start])
        while dq:
            s = dq.popleft()
            for t, lab in self.succ[s]:
                if (s, t) in cut2 or (s, t, lab) in cut3 or t in cutb or t in seen:
                    continue
                seen.add(t)
                dq.append(t)
        return seen

    def reachable(self):
        if self._reach0 is None:
            self._reach0 = self.reach(0)
        return self._reach0

    def reach_from(self, start):
        return self.reach(start)

    def can_reach(self, src, dst):
        return dst in self.reach(src)

    # ---- dominance
    def dominates(self, a, b):
        """Block a dominates block b (every path entry->b passes through a)."""
        if a == b:
            return True
        if b not in self.reachable():
            return False
        return b not in self.reach(0, cut_blocks=[a])

    def edge_guards(self, edge, target):
        """ED: `target` is reachable from entry only through `edge` (s,t[,label])."""
        if target not in self.reachable():
            return False
        return target not in self.reach(0, cut_edges=[edge])

    def edges_guard(self, edges, target):
        """target reachable only through at least one of `edges` (cutting all of them disconnects it)."""
        if target not in self.reachable():
            return False
        return target not in self.reach(0, cut_edges=list(edges))

    def block_guards(self, blk, target):
        return self.dominates(blk, target)

    # ---- loops
    def back_edges(self):
        out = []
        for s in self.reachable():
            for t, lab in self.succ[s]:
                if self.dominates(t, s):
                    out.append((s, t))
        return out

    def loop_blocks(self, head):
        """Natural loop of `head`: union over back edges (s->head)."""
        blocks = {head}
        for s, t in self.back_edges():
            if t != head:
                continue
            stack = [s]
            while stack:
                x = stack.pop()
                if x in blocks:
                    continue
                blocks.add(x)
                stack.extend(p for p, _ in self.pred[x])
        return blocks

    def loops(self):
        heads = sorted({t for _, t in self.back_edges()})
        return {h: self.loop_blocks(h) for h in heads}

    def exits(self):
        """Blocks whose terminator is `return`."""
        return [i for i in self.reachable() if self.body.blocks[i]['term']['k'] == 'return']

    def path(self, src, dst, cut_edges=(), cut_blocks=()):
        """Some path src->dst as a block list (for reports), or None."""
        cut2 = {tuple(e[:2]) for e in cut_edges if len(e) == 2}
        cut3 = {tuple(e) for e in cut_edges if len(e) == 3}
        cutb = set(cut_blocks)
        prev = {src: None}
        dq = deque([src])
        while dq:
            s = dq.popleft()
            if s == dst:
                out = []
                while s is not None:
                    out.append(s)
                    s = prev[s]
                return out[::-1]
            for t, lab in self.succ[s]:
                if t in prev or (s, t) in cut2 or (s, t, lab) in cut3 or t in cutb:
                    continue
                prev[t] = s
                dq.append(t)
        return None


_cfg_cache = {}


def cfg_of(body):
    c = body._cfg_cache
    if c is None:
        c = CFG(body)
        body._cfg_cache = c
    return c
