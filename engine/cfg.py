"""Per-body control-flow primitives: successors, reachability, dominators, edge dominance (ED),
natural loops.  Edges are (src_block, dst_block, label) where label is the switch value,
'otherwise', or None."""
from collections import deque


# crate functions that return one and the same enum variant on every path: {normalised path: variant index}; filled by
# inline.apply() once the bodies are normalised (`impl From<Refusal> for Stop { fn from(w) -> Self { Self::Refused(w) } }`)
FN_VARIANT = {}


def _norm_callee(t):
    f = t.get('func') or {}
    fn = f.get('fn_resolved') or f.get('fn')
    if not fn:
        return None
    try:
        from facts import norm
        return norm(fn)
    except Exception:
        return fn


def _err_type(ty):
    """E of `std::result::Result<T, E>` (top-level second argument)"""
    if not ty or 'result::Result<' not in ty[:40]:
        return None
    inner = ty[ty.index('<') + 1:ty.rindex('>')]
    depth, cur, parts = 0, '', []
    for ch in inner:
        if ch in '<([':
            depth += 1
        elif ch in '>)]':
            depth -= 1
        if ch == ',' and depth == 0:
            parts.append(cur.strip())
            cur = ''
        else:
            cur += ch
    parts.append(cur.strip())
    return parts[1] if len(parts) == 2 else None


def term_succs(term):
    """[(target, label)] for a terminator."""
    k = term['k']
    if k == 'goto':
        return [(term['target'], None)]
    if k == 'switch':
        out = [(b, v) for v, b in term['targets']]
        out.append((term['otherwise'], 'otherwise'))
        return out
    if k in ('call', 'drop', 'assert', 'yield'):
        t = term.get('target')
        return [(t, None)] if t is not None else []
    return []


class CFG:
    def __init__(self, body):
        self.body = body
        self.n = len(body.blocks)
        self.succ = [term_succs(b['term']) for b in body.blocks]
        # constant switch folding (exact): `L = const v; switchInt(L)` in one block (cfg!(debug_assertions) etc.)
        for bi, blk in enumerate(body.blocks):
            t = blk['term']
            if t['k'] != 'switch':
                continue
            val = None
            if t['on']['k'] == 'const':
                val = t['on'].get('v')
            elif not t['on']['p']['proj']:
                L = t['on']['p']['l']
                for st in blk['stmts']:
                    if st['dst']['l'] == L:
                        rv = st['rv']
                        if not st['dst']['proj'] and rv['k'] == 'use' and rv['ops'][0]['k'] == 'const' and 'v' in rv['ops'][0]:
                            val = rv['ops'][0]['v']
                        else:
                            val = None
            if val is None:
                continue
            tgt = t['otherwise']
            for v, b2 in t['targets']:
                if v == val:
                    tgt = b2
            self.succ[bi] = [(tgt, None)]
        # jump threading (exact): `L = const v; goto T` where T is an empty block `switchInt(L)` goes
        # straight to T's target for v (the shape of `matches!(..)`, `a && b`, `if let .. else`).
        self.threaded = {}     # (T, label) -> [B...]
        self.threaded_via = {}
        for bi, blk in enumerate(body.blocks):
            t = blk['term']
            if t['k'] != 'goto':
                continue
            if t.get('threaded_via'):
                # inline.thread_jumps took this edge in place of the switch edge (T, label): outcome queries see it as that edge
                self.threaded_via.setdefault((t['threaded_via'][0], t['threaded_via'][1]), []).append((bi, t['target']))
                continue
            T = t['target']
            tb = body.blocks[T]
            tt = tb['term']
            if tb['stmts'] or tt['k'] != 'switch' or tt['on']['k'] == 'const' or tt['on']['p']['proj']:
                continue
            L = tt['on']['p']['l']
            val = None
            for st in blk['stmts']:
                if st['dst']['l'] == L:
                    rv = st['rv']
                    if not st['dst']['proj'] and rv['k'] == 'use' and rv['ops'][0]['k'] == 'const' and 'v' in rv['ops'][0]:
                        val = rv['ops'][0]['v']
                    else:
                        val = None
            if val is None:
                continue
            tgt, lab = tt['otherwise'], 'otherwise'
            for v, b2 in tt['targets']:
                if v == val:
                    tgt, lab = b2, v
            self.succ[bi] = [(tgt, None)]
            self.threaded.setdefault((T, lab), []).append((bi, tgt))
        self.pred = [[] for _ in range(self.n)]
        for s, outs in enumerate(self.succ):
            for t, lab in outs:
                self.pred[t].append((s, lab))
        self._reach0 = None
        self._dom = None

    # ---- reachability
    def reach(self, start=0, cut_edges=(), cut_blocks=()):
        """Blocks reachable from `start` without traversing `cut_edges` ((s,t) or (s,t,label))
        or entering `cut_blocks`."""
        cut2 = set()
        cut3 = set()
        for e in cut_edges:
            if len(e) == 2:
                cut2.add(tuple(e))
            else:
                cut3.add(tuple(e))
        cutb = set(cut_blocks)
        if start in cutb:
            return set()
        seen = {start}
        dq = deque([start])
        while dq:
            s = dq.popleft()
            for t, lab in self.succ[s]:
                if (s, t) in cut2 or (s, t, lab) in cut3 or t in cutb or t in seen:
                    continue
                seen.add(t)
                dq.append(t)
        return seen

    # ---- feasible reachability: forward propagation of what is known about enum variants / bool and integer constants
    def _tracked(self):
        """locals whose value can be followed through assignments: never mutably borrowed, never written through a projection"""
        if getattr(self, '_trk', None) is None:
            bad = set()
            for blk in self.body.blocks:
                for st in blk['stmts']:
                    rv = st['rv']
                    if rv['k'] in ('ref', 'rawptr') and rv.get('mut', rv['k'] == 'rawptr'):
                        bad.add(rv['p']['l'])
                    if st['dst']['proj']:
                        bad.add(st['dst']['l'])
                t = blk['term']
                if t and isinstance(t.get('dst'), dict) and t['dst'].get('proj'):
                    bad.add(t['dst']['l'])
            self._trk = bad
        return self._trk

    def _two_variants(self, l):
        ty = self.body.locals[l]['ty']
        return ty.startswith(('std::option::Option<', 'core::option::Option<', 'std::result::Result<', 'core::result::Result<', 'std::ops::ControlFlow<', 'core::ops::ControlFlow<'))

    def _flow_block(self, bi, facts):
        """[(succ, label, facts')] for the feasible successors of block `bi` entered with `facts` {local: ('v', variant) | ('c', const)}"""
        bad = self._tracked()
        f = dict(facts)
        blk = self.body.blocks[bi]
        discr_of = {}
        def payload_read(op):
            # `(y as Variant).0` of a tracked local: what is known about the payload y was built with
            if op['k'] == 'const':
                return None
            pr = op['p']['proj']
            if len(pr) == 2 and isinstance(pr[0], dict) and 'dc' in pr[0] and isinstance(pr[1], dict) and pr[1].get('f') == 0 and op['p']['l'] not in bad:
                return f.get((op['p']['l'], '#0'))
            return None
        for st in blk['stmts']:
            d = st['dst']
            if d['proj']:
                f.pop(d['l'], None)
                f.pop((d['l'], '#0'), None)
                continue
            rv = st['rv']
            val = None
            inner = None
            if d['l'] not in bad:
                if rv['k'] == 'agg' and rv.get('ak') == 'adt' and 'variant' in rv and len(rv['ops']) == 1 and rv['ops'][0]['k'] != 'const' and not rv['ops'][0]['p']['proj']:
                    inner = f.get(rv['ops'][0]['p']['l'])
                elif rv['k'] == 'use' and rv['ops'][0]['k'] != 'const' and not rv['ops'][0]['p']['proj']:
                    inner = f.get((rv['ops'][0]['p']['l'], '#0'))
                elif rv['k'] == 'use':
                    pv = payload_read(rv['ops'][0])
                    if pv is not None:
                        val = pv
            f.pop((d['l'], '#0'), None)
            if inner is not None:
                f[(d['l'], '#0')] = inner
            if val is not None:
                f[d['l']] = val
                continue
            if d['l'] not in bad:
                if rv['k'] == 'agg' and rv.get('ak') == 'adt' and 'variant' in rv:
                    val = ('v', rv['variant'])
                elif rv['k'] == 'use' and rv['ops'][0]['k'] == 'const' and 'v' in rv['ops'][0] and isinstance(rv['ops'][0]['v'], (int, bool)):
                    val = ('c', int(rv['ops'][0]['v']))
                elif rv['k'] == 'use' and rv['ops'][0]['k'] != 'const' and not rv['ops'][0]['p']['proj']:
                    val = f.get(rv['ops'][0]['p']['l'])
                elif rv['k'] == 'discr' and not rv['p']['proj']:
                    kv = f.get(rv['p']['l'])
                    if kv and kv[0] == 'v':
                        val = ('c', kv[1])
                    discr_of[d['l']] = rv['p']['l']
                elif rv['k'] == 'discr' and len(rv['p']['proj']) == 2 and isinstance(rv['p']['proj'][0], dict) and 'dc' in rv['p']['proj'][0] and \
                        isinstance(rv['p']['proj'][1], dict) and rv['p']['proj'][1].get('f') == 0 and rv['p']['l'] not in bad:
                    # `match (x as Err).0 { .. }`: the variant of the payload x was built with
                    kv = f.get((rv['p']['l'], '#0'))
                    if kv and kv[0] == 'v':
                        val = ('c', kv[1])
                elif rv['k'] == 'un' and rv.get('op') == 'Not' and rv['ops'][0]['k'] != 'const' and not rv['ops'][0]['p']['proj']:
                    kv = f.get(rv['ops'][0]['p']['l'])
                    if kv and kv[0] == 'c' and kv[1] in (0, 1):
                        val = ('c', 1 - kv[1])
            # a moved-from / overwritten source keeps its fact only if it is not the destination
            for k_ in [k_ for k_, src in discr_of.items() if src == d['l'] and k_ != d['l']]:
                discr_of.pop(k_, None)
            if val is None:
                f.pop(d['l'], None)
            else:
                f[d['l']] = val
        t = blk['term']
        if t is None:
            return []
        if t['k'] == 'call' and isinstance(t.get('dst'), dict):
            dl_ = t['dst'].get('l')
            known, inner = None, None
            fn_ = (t.get('func') or {}).get('fn') or ''
            if ('Try::branch' in fn_ or 'Try>::branch' in fn_) and t.get('args') and t['args'][0]['k'] != 'const' and not t['args'][0]['p']['proj'] and not t['dst'].get('proj'):
                y = t['args'][0]['p']['l']
                ty = self.body.locals[y]['ty']
                kv = f.get(y)
                if kv and kv[0] == 'v' and y not in bad:
                    if 'result::Result<' in ty[:30]:
                        known = ('v', 0 if kv[1] == 0 else 1)
                    elif 'option::Option<' in ty[:30]:
                        known = ('v', 0 if kv[1] == 1 else 1)
                inner = f.get((y, '#0')) if y not in bad else None
            if 'from_residual' in fn_ and t.get('args') and not t['dst'].get('proj') and dl_ is not None:
                # `?` hands the failure on: the result is the failure variant of the return type; its payload went through
                # `From::from` - when that conversion always builds one variant, the payload's variant is known too
                dty = self.body.locals[dl_]['ty']
                if 'result::Result<' in dty[:30]:
                    known = ('v', 1)
                    a0 = t['args'][0]
                    sty = self.body.locals[a0['p']['l']]['ty'] if a0['k'] != 'const' and not a0['p']['proj'] else ''
                    de, se = _err_type(dty), _err_type(sty)
                    if de and se and de != se:
                        v_ = FN_VARIANT.get('<%s as std::convert::From<%s>>::from' % (de, se))
                        if v_ is not None:
                            inner = ('v', v_)
                    elif de and se and a0['k'] != 'const' and not a0['p']['proj']:
                        inner = f.get((a0['p']['l'], '#0')) if a0['p']['l'] not in bad else None
                elif 'option::Option<' in dty[:30]:
                    known = ('v', 0)
            elif known is None:
                cv_ = FN_VARIANT.get(_norm_callee(t) or '')
                if cv_ is not None and not t['dst'].get('proj'):
                    known = ('v', cv_)
            f.pop(dl_, None)
            f.pop((dl_, '#0'), None)
            if dl_ not in bad:
                if known is not None:
                    f[dl_] = known
                if inner is not None:
                    f[(dl_, '#0')] = inner
        outs = self.succ[bi]
        if t['k'] != 'switch' or t['on']['k'] == 'const' or t['on']['p']['proj'] or len(outs) <= 1:
            return [(x, lab, f) for x, lab in outs]
        c = t['on']['p']['l']
        kv = f.get(c)
        listed = [v for v, _ in t['targets']]
        res = []
        for x, lab in outs:
            if kv and kv[0] == 'c':
                if lab == 'otherwise':
                    if kv[1] in listed:
                        continue
                elif lab != kv[1]:
                    continue
            f2 = dict(f)
            v = lab
            if lab == 'otherwise':
                v = None
                if len(listed) == 1 and listed[0] in (0, 1) and (self.body.locals[c]['ty'] == 'bool' or (c in discr_of and self._two_variants(discr_of[c]))):
                    v = 1 - listed[0]
            if v is not None and c not in bad:
                f2[c] = ('c', v)
                y = discr_of.get(c)
                if y is not None and y not in bad:
                    f2[y] = ('v', v)
            res.append((x, lab, f2))
        return res

    def feasible_reach(self, start=0, cut_edges=(), cut_blocks=(), facts=None):
        """like reach(), but a switch on a value that is known on the way there (an enum variant just built or just tested, a
        bool / integer constant) is followed only along the edge it takes. Facts meet by agreement where paths join, so the
        result is a superset of what can execute and a subset of reach()."""
        cut2, cut3 = set(), set()
        for e in cut_edges:
            (cut2 if len(e) == 2 else cut3).add(tuple(e))
        cutb = set(cut_blocks)
        if start in cutb:
            return set()
        inf = {start: dict(facts or {})}
        work = deque([start])
        steps = 0
        while work and steps < 20000:
            steps += 1
            s = work.popleft()
            for x, lab, f2 in self._flow_block(s, inf[s]):
                if (s, x) in cut2 or (s, x, lab) in cut3 or x in cutb:
                    continue
                if x not in inf:
                    inf[x] = f2
                    work.append(x)
                else:
                    cur = inf[x]
                    m = {k: v for k, v in cur.items() if f2.get(k) == v}
                    if len(m) != len(cur):
                        inf[x] = m
                        work.append(x)
        if work:
            return self.reach(start, cut_edges, cut_blocks)      # did not converge in the budget: fall back to plain reachability
        return set(inf)

    def feasible_after_edge(self, edge, cut_edges=(), cut_blocks=()):
        """blocks that can execute after `edge` (s, t[, label]) was taken, given what taking it establishes"""
        s_, t_ = edge[0], edge[1]
        lab = edge[2] if len(edge) > 2 else None
        for x, l2, f2 in self._flow_block(s_, {}):
            if x == t_ and (len(edge) < 3 or l2 == lab):
                return self.feasible_reach(t_, cut_edges, cut_blocks, facts=f2)
        return self.reach(t_, cut_edges, cut_blocks)

    def reachable(self):
        if self._reach0 is None:
            self._reach0 = self.reach(0)
        return self._reach0

    def reach_from(self, start):
        return self.reach(start)

    def can_reach(self, src, dst):
        return dst in self.reach(src)

    # ---- dominance
    def dominates(self, a, b):
        """Block a dominates block b (every path entry->b passes through a)."""
        if a == b:
            return True
        if b not in self.reachable():
            return False
        return b not in self.reach(0, cut_blocks=[a])

    def edge_guards(self, edge, target):
        """ED: `target` is reachable from entry only through `edge` (s,t[,label])."""
        if target not in self.reachable():
            return False
        return target not in self.reach(0, cut_edges=[edge])

    def edges_guard(self, edges, target):
        """target reachable only through at least one of `edges` (cutting all of them disconnects it)."""
        if target not in self.reachable():
            return False
        if target not in self.reach(0, cut_edges=list(edges)):
            return True
        # path-insensitively reachable around the edges: is any of those ways feasible?
        return target not in self.feasible_reach(0, cut_edges=list(edges))

    def block_guards(self, blk, target):
        return self.dominates(blk, target)

    # ---- loops
    def back_edges(self):
        out = []
        for s in self.reachable():
            for t, lab in self.succ[s]:
                if self.dominates(t, s):
                    out.append((s, t))
        return out

    def loop_blocks(self, head):
        """Natural loop of `head`: union over back edges (s->head)."""
        blocks = {head}
        for s, t in self.back_edges():
            if t != head:
                continue
            stack = [s]
            while stack:
                x = stack.pop()
                if x in blocks:
                    continue
                blocks.add(x)
                stack.extend(p for p, _ in self.pred[x])
        return blocks

    def loops(self):
        heads = sorted({t for _, t in self.back_edges()})
        return {h: self.loop_blocks(h) for h in heads}

    def exits(self):
        """Blocks whose terminator is `return`."""
        return [i for i in self.reachable() if self.body.blocks[i]['term']['k'] == 'return']

    def path(self, src, dst, cut_edges=(), cut_blocks=()):
        """Some path src->dst as a block list (for reports), or None."""
        cut2 = {tuple(e[:2]) for e in cut_edges if len(e) == 2}
        cut3 = {tuple(e) for e in cut_edges if len(e) == 3}
        cutb = set(cut_blocks)
        prev = {src: None}
        dq = deque([src])
        while dq:
            s = dq.popleft()
            if s == dst:
                out = []
                while s is not None:
                    out.append(s)
                    s = prev[s]
                return out[::-1]
            for t, lab in self.succ[s]:
                if t in prev or (s, t) in cut2 or (s, t, lab) in cut3 or t in cutb:
                    continue
                prev[t] = s
                dq.append(t)
        return None


_cfg_cache = {}


def cfg_of(body):
    c = body._cfg_cache
    if c is None:
        c = CFG(body)
        body._cfg_cache = c
    return c
