"""TBL helper: resolve an operand into a small symbolic term by following single-definition locals."""
from facts import callee, norm
from flow import IDENTITY_CALLS


def term_of(fl, op, depth=0):
    if depth > 40:
        return ('deep',)
    if op['k'] == 'const':
        if 'fn' in op:
            return ('fn', norm(op['fn']))
        if 'v' in op:
            return ('const', op['v'])
        if 's' in op:
            return ('const', op['s'])
        if 'bytes' in op:
            return ('const', bytes(op['bytes']))
        return ('const', op.get('dbg'))
    return place_term(fl, op['p'], depth)


def place_term(fl, p, depth):
    base = local_term(fl, p['l'], depth)
    for e in p['proj']:
        if e == 'deref':
            continue
        if e == 'opaque':
            continue
        if 'f' in e:
            name = e['name'] if e['name'] != '' else str(e['f'])
            if base[0] == 'array' and name.isdigit() and int(name) < len(base[1]):
                base = base[1][int(name)]
            elif base[0] == 'tuple' and name.isdigit() and int(name) < len(base[1]):
                base = base[1][int(name)]
            elif base[0] == 'agg' and base[1] in ('closure', 'coroutine') and name.isdigit() and int(name) < len(base[2]):
                base = base[2][int(name)]        # a captured variable of a spliced closure: the value it was captured with
            elif base[0] == 'adt' and name in base[3]:
                base = base[4][base[3].index(name)]
            elif base[0] == 'payload':
                base = ('vfield', base[1], base[2], name)
            else:
                base = ('field', base, name)
        elif 'idx' in e:
            it = local_term(fl, e['idx'], depth + 1)
            if it[0] == 'const' and base[0] == 'array' and isinstance(it[1], int) and it[1] < len(base[1]):
                base = base[1][it[1]]
            else:
                base = ('idx', base, it[1] if it[0] == 'const' else it)
        elif 'cidx' in e:
            base = ('idx', base, e['cidx'])
        elif 'dc' in e:
            base = ('payload', base, e['name'])
        else:
            base = ('proj', base)
    return base


def _single_def(fl, l):
    ds = fl.defs.get(l, [])
    if len(ds) == 1 and not ds[0][4]:
        return ds[0]
    return None


def _const_of_local(fl, l):
    d = _single_def(fl, l)
    if d and d[2] == 'assign' and d[3]['k'] == 'use' and d[3]['ops'][0]['k'] == 'const' and isinstance(d[3]['ops'][0].get('v'), int):
        return d[3]['ops'][0]['v']
    return None


def _op_const(fl, op):
    if op['k'] == 'const':
        return op.get('v') if isinstance(op.get('v'), int) else None
    return _const_of_local(fl, op['p']['l']) if not op['p']['proj'] else None


def _array_len(ty):
    import re
    m = re.match(r'^&?(?:mut )?\[u8; (\d+)\]$', ty.strip())
    return int(m.group(1)) if m else None


def ref_target(fl, op, hops=0):
    """what a reference operand points at, followed through re-borrows, unsizing casts and `x[a..b]`:
    (place, lo, hi) with place = {'l':.., 'proj':[..]} (proj without the leading deref chain) and lo/hi byte bounds or None"""
    if hops > 12 or op['k'] == 'const':
        return None
    p = op['p']
    if p['proj']:
        return None
    d = _single_def(fl, p['l'])
    if d is None:
        if 1 <= p['l'] <= fl.body.argc and not fl.defs.get(p['l']) and fl.body.local_ty(p['l']).startswith('&'):
            return ({'l': p['l'], 'proj': ['deref']}, None, None)      # a reference parameter: what it points at
        return None
    bb, idx, kind, data, _ = d
    if kind == 'call':
        c = callee(data) or ''
        if c in ('std::ops::Index::index', 'std::ops::IndexMut::index_mut') and len(data['args']) == 2:
            base = ref_target(fl, data['args'][0], hops + 1)
            r = data['args'][1]
            rd = _single_def(fl, r['p']['l']) if r['k'] != 'const' and not r['p']['proj'] else None
            if base is None or base[1] is not None or rd is None or rd[2] != 'assign' or rd[3]['k'] != 'agg':
                return None
            adt = norm(rd[3].get('adt') or '')
            ops = [_op_const(fl, o) for o in rd[3]['ops']]
            if adt.endswith('ops::Range') and len(ops) == 2 and None not in ops:
                return (base[0], ops[0], ops[1])
            if adt.endswith('ops::RangeTo') and len(ops) == 1 and None not in ops:
                return (base[0], 0, ops[0])
            return None
        return None
    rv = data
    if rv['k'] == 'ref':
        q = rv['p']
        if q['proj'] and q['proj'][0] == 'deref':
            if len(q['proj']) == 1:
                return ref_target(fl, {'k': 'copy', 'p': {'l': q['l'], 'proj': []}}, hops + 1)
            inner = ref_target(fl, {'k': 'copy', 'p': {'l': q['l'], 'proj': []}}, hops + 1)
            if inner is None or inner[1] is not None:
                # a reference parameter: the place is named through the parameter itself
                if 1 <= q['l'] <= fl.body.argc and not fl.defs.get(q['l']):
                    return ({'l': q['l'], 'proj': list(q['proj'])}, None, None)
                return None
            return ({'l': inner[0]['l'], 'proj': list(inner[0]['proj']) + list(q['proj'][1:])}, None, None)
        return ({'l': q['l'], 'proj': list(q['proj'])}, None, None)
    if rv['k'] in ('use', 'cast') and rv['ops'][0]['k'] != 'const':
        return ref_target(fl, rv['ops'][0], hops + 1)
    return None


def array_store_term(fl, l, depth):
    """A fixed byte array filled piecewise - `[0u8; N]`, then `buf[k] = x`, `buf[a..b].copy_from_slice(&src)` - as the
    ('array', [term per byte]) it holds after the last write. The writes must form one chain (each dominates the next);
    anything else -> None."""
    b = fl.body
    n = _array_len(b.local_ty(l))
    if n is None or n > 64:
        return None
    cfg = fl.cfg
    events = []
    for (bb, idx, kind, data, dproj) in fl.defs.get(l, []):
        events.append((bb, idx if idx != 'term' else 1 << 30, 'def', (kind, data, dproj)))
    borrowed = False
    for bi in cfg.reachable():
        blk = b.blocks[bi]
        for st in blk['stmts']:
            rv = st['rv']
            if rv['k'] == 'ref' and rv['p']['l'] == l and rv.get('mut'):
                borrowed = True
        t = blk['term']
        if t['k'] == 'call' and (callee(t) or '').endswith('::copy_from_slice') and len(t['args']) == 2:
            tgt = ref_target(fl, t['args'][0])
            if tgt is not None and tgt[0]['l'] == l and not tgt[0]['proj']:
                events.append((bi, 1 << 30, 'copy', (tgt, t['args'][1])))
            elif tgt is None:
                # a copy into something unresolved may write this array
                o = fl.origins(t['args'][0])
                if any(getattr(x, 'kind', '') == 'local' and x.key == l for x in o):
                    return None
    if not any(e[2] == 'copy' for e in events) and not any(e[2] == 'def' and e[3][2] for e in events):
        return None

    def before(x, y):
        if x[0] == y[0]:
            return x[1] < y[1]
        return cfg.dominates(x[0], y[0])
    import functools
    try:
        events.sort(key=functools.cmp_to_key(lambda x, y: -1 if before(x, y) else (1 if before(y, x) else 0)))
    except Exception:
        return None
    for x, y in zip(events, events[1:]):
        if not before(x, y):
            return None
    cells = None
    for (bb, idx, what, data) in events:
        if what == 'def':
            kind, rv, dproj = data
            if not dproj:
                if kind != 'assign':
                    return None
                if rv['k'] == 'repeat':
                    cells = [term_of(fl, rv['ops'][0], depth + 1)] * n
                elif rv['k'] == 'agg' and rv.get('ak') == 'array' and len(rv['ops']) == n:
                    cells = [term_of(fl, o, depth + 1) for o in rv['ops']]
                else:
                    return None
            else:
                if cells is None or len(dproj) != 1 or kind != 'assign':
                    return None
                e = dproj[0]
                k = e.get('cidx') if isinstance(e, dict) and 'cidx' in e else (_const_of_local(fl, e['idx']) if isinstance(e, dict) and 'idx' in e else None)
                if k is None or not (0 <= k < n):
                    return None
                cells = list(cells)
                if rv['k'] == 'use':
                    cells[k] = term_of(fl, rv['ops'][0], depth + 1)
                elif rv['k'] == 'cast':
                    cells[k] = ('cast', term_of(fl, rv['ops'][0], depth + 1), rv['ty'])
                else:
                    return None
        else:
            (tgt, src_op) = data
            if cells is None:
                return None
            lo, hi = (0, n) if tgt[1] is None else (tgt[1], tgt[2])
            if not (0 <= lo <= hi <= n):
                return None
            src = ref_target(fl, src_op)
            if src is None:
                return None
            sp, slo, shi = src
            if sp['l'] == l:
                return None
            base = place_term(fl, sp, depth + 1)
            if slo is None:
                # whole source: its length must be known from its type and equal the target range
                sl = None
                if base[0] == 'array':
                    sl = len(base[1])
                else:
                    sl = _place_array_len(fl, sp)
                if sl != hi - lo:
                    return None
                slo = 0
            elif shi - slo != hi - lo:
                return None
            cells = list(cells)
            for j in range(hi - lo):
                cells[lo + j] = base[1][slo + j] if base[0] == 'array' and slo + j < len(base[1]) else ('idx', base, slo + j)
    return ('array', cells) if cells is not None else None


def _place_array_len(fl, p):
    """length of the byte array a place denotes, from the types in the fact file"""
    b = fl.body
    if not [e for e in p['proj'] if e != 'deref']:
        return _array_len(b.local_ty(p['l']))
    # a field: look for a reference local whose single definition borrows exactly this place
    for l2, ds in fl.defs.items():
        if len(ds) == 1 and ds[0][2] == 'assign' and ds[0][3]['k'] == 'ref' and ds[0][3]['p'] == p:
            n = _array_len(b.local_ty(l2))
            if n is not None:
                return n
    return None


def local_term(fl, l, depth):
    b = fl.body
    ds = fl.defs.get(l, [])
    if ds and _array_len(b.local_ty(l)) is not None and not (1 <= l <= b.argc):
        at = array_store_term(fl, l, depth)
        if at is not None:
            return at
    if 1 <= l <= b.argc and not ds:
        return ('param', l, b.local_name(l))
    if len(ds) > 1 and all(d[2] == 'assign' and not d[4] and d[3] == ds[0][3] for d in ds) and ds[0][2] == 'assign':
        # the same statement in several blocks (a block duplicated by jump threading): one value
        ds = ds[:1]
    if len(ds) != 1:
        return ('phi', l) if ds else ('undef', l)
    bb, idx, kind, data, dproj = ds[0]
    if dproj:
        return ('partial', l)
    if kind == 'call':
        c = callee(data)
        args = [term_of(fl, a, depth + 1) for a in data['args']]
        if c in IDENTITY_CALLS and args:
            return args[0]
        return ('call', c, args, bb)
    rv = data
    k = rv['k']
    if k == 'use':
        return term_of(fl, rv['ops'][0], depth + 1)
    if k == 'ref':
        return place_term(fl, rv['p'], depth + 1)
    if k == 'cast':
        return ('cast', term_of(fl, rv['ops'][0], depth + 1), rv['ty'])
    if k == 'discr':
        return ('discr', place_term(fl, rv['p'], depth + 1))
    if k == 'agg':
        ops = [term_of(fl, o, depth + 1) for o in rv['ops']]
        if rv['ak'] == 'array':
            return ('array', ops)
        if rv['ak'] == 'tuple':
            return ('tuple', ops)
        if rv['ak'] == 'adt':
            return ('adt', norm(rv['adt']), rv['vname'], list(rv.get('fields', [])), ops)
        return ('agg', rv['ak'], ops)
    if k == 'bin':
        return ('bin', rv['op'], term_of(fl, rv['ops'][0], depth + 1), term_of(fl, rv['ops'][1], depth + 1))
    if k == 'un':
        return ('un', rv['op'], term_of(fl, rv['ops'][0], depth + 1))
    if k == 'repeat':
        return ('repeat', term_of(fl, rv['ops'][0], depth + 1), rv['n'])
    return ('other', k)


def strip_payload(t):
    """Look through `x?` / Some/Ok payloads."""
    while isinstance(t, tuple) and t:
        if t[0] == 'payload':
            t = t[1]
        elif t[0] == 'vfield' and t[2] in ('Continue', 'Some', 'Ok', 'Ready') and t[3] == '0':
            t = t[1]
        else:
            break
    return t
