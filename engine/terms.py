"""TBL helper: resolve an operand into a small symbolic term by following single-definition locals."""
from facts import callee, norm
from flow import IDENTITY_CALLS


def term_of(fl, op, depth=0):
    if depth > 40:
        return ('deep',)
    if op['k'] == 'const':
        if 'fn' in op:
            return ('fn', norm(op['fn']))
        if 'v' in op:
            return ('const', op['v'])
        if 's' in op:
            return ('const', op['s'])
        if 'bytes' in op:
            return ('const', bytes(op['bytes']))
        return ('const', op.get('dbg'))
    return place_term(fl, op['p'], depth)


def place_term(fl, p, depth):
    base = local_term(fl, p['l'], depth)
    for e in p['proj']:
        if e == 'deref':
            continue
        if e == 'opaque':
            continue
        if 'f' in e:
            name = e['name'] if e['name'] != '' else str(e['f'])
            if base[0] == 'array' and name.isdigit() and int(name) < len(base[1]):
                base = base[1][int(name)]
            elif base[0] == 'tuple' and name.isdigit() and int(name) < len(base[1]):
                base = base[1][int(name)]
            elif base[0] == 'adt' and name in base[3]:
                base = base[4][base[3].index(name)]
            elif base[0] == 'payload':
                base = ('vfield', base[1], base[2], name)
            else:
                base = ('field', base, name)
        elif 'idx' in e:
            it = local_term(fl, e['idx'], depth + 1)
            if it[0] == 'const' and base[0] == 'array' and isinstance(it[1], int) and it[1] < len(base[1]):
                base = base[1][it[1]]
            else:
                base = ('idx', base, it[1] if it[0] == 'const' else it)
        elif 'cidx' in e:
            base = ('idx', base, e['cidx'])
        elif 'dc' in e:
            base = ('payload', base, e['name'])
        else:
            base = ('proj', base)
    return base


def local_term(fl, l, depth):
    b = fl.body
    ds = fl.defs.get(l, [])
    if 1 <= l <= b.argc and not ds:
        return ('param', l, b.local_name(l))
    if len(ds) != 1:
        return ('phi', l) if ds else ('undef', l)
    bb, idx, kind, data, dproj = ds[0]
    if dproj:
        return ('partial', l)
    if kind == 'call':
        c = callee(data)
        args = [term_of(fl, a, depth + 1) for a in data['args']]
        if c in IDENTITY_CALLS and args:
            return args[0]
        return ('call', c, args, bb)
    rv = data
    k = rv['k']
    if k == 'use':
        return term_of(fl, rv['ops'][0], depth + 1)
    if k == 'ref':
        return place_term(fl, rv['p'], depth + 1)
    if k == 'cast':
        return ('cast', term_of(fl, rv['ops'][0], depth + 1), rv['ty'])
    if k == 'discr':
        return ('discr', place_term(fl, rv['p'], depth + 1))
    if k == 'agg':
        ops = [term_of(fl, o, depth + 1) for o in rv['ops']]
        if rv['ak'] == 'array':
            return ('array', ops)
        if rv['ak'] == 'tuple':
            return ('tuple', ops)
        if rv['ak'] == 'adt':
            return ('adt', norm(rv['adt']), rv['vname'], list(rv.get('fields', [])), ops)
        return ('agg', rv['ak'], ops)
    if k == 'bin':
        return ('bin', rv['op'], term_of(fl, rv['ops'][0], depth + 1), term_of(fl, rv['ops'][1], depth + 1))
    if k == 'un':
        return ('un', rv['op'], term_of(fl, rv['ops'][0], depth + 1))
    if k == 'repeat':
        return ('repeat', term_of(fl, rv['ops'][0], depth + 1), rv['n'])
    return ('other', k)


def strip_payload(t):
    """Look through `x?` / Some/Ok payloads."""
    while isinstance(t, tuple) and t:
        if t[0] == 'payload':
            t = t[1]
        elif t[0] == 'vfield' and t[2] in ('Continue', 'Some', 'Ok', 'Ready') and t[3] == '0':
            t = t[1]
        else:
            break
    return t
