"""Flow-sensitive interval analysis with bounded loop unrolling, for integer code over byte slices whose loops are iterator
loops with a known maximal trip count (`for x in data`, `for (i, x) in data.iter().enumerate()`, `for c in data.chunks(K)`).

Used as a *fallback* for checksum code that the polynomial engine (ar.py) does not model: it cannot establish that a result
equals the specification, but it does decide the wrap-freedom obligations - every `+ - *`, checked or wrapping, stays inside
its machine type for all inputs of at most `nmax` bytes in [0, 255].  No execution of copia: the abstract state (intervals)
is pushed through the MIR; a loop of at most R iterations is run R times on intervals (monotone accumulations reach their
maximum in the last iteration), inner loops are run inside outer ones.

Values:
  ('int', lo, hi)                      integer / bool
  ('slice', maxlen)                    &[u8] of at most maxlen bytes
  ('iter', kind, remaining, extra)     kind in bytes | enum | chunks(extra = K)
  ('tuple', (v0, v1, ..))              also Option payloads:  ('some', v) / ('none',)
  ('top',)                             anything else
"""
from ranges import INT, ty_range
from flow import norm


class Unsupported(Exception):
    pass


class Ob:
    def __init__(self, ok, what, line, detail):
        self.ok, self.what, self.line, self.detail = ok, what, line, detail


TOP = ('top',)


def join(a, b):
    if a is None:
        return b
    if b is None:
        return a
    if a == b:
        return a
    if a[0] == 'int' and b[0] == 'int':
        return ('int', min(a[1], b[1]), max(a[2], b[2]))
    if a[0] == 'slice' and b[0] == 'slice':
        return ('slice', max(a[1], b[1]))
    if a[0] == 'iter' and b[0] == 'iter' and a[1] == b[1] and a[3] == b[3]:
        return ('iter', a[1], max(a[2], b[2]), a[3])
    if a[0] == 'tuple' and b[0] == 'tuple' and len(a[1]) == len(b[1]):
        return ('tuple', tuple(join(x, y) for x, y in zip(a[1], b[1])))
    if a[0] == 'some' and b[0] == 'some':
        return ('some', join(a[1], b[1]))
    return TOP


def join_env(e1, e2):
    if e1 is None:
        return dict(e2)
    out = {}
    for k in set(e1) | set(e2):
        if k in e1 and k in e2:
            out[k] = join(e1[k], e2[k])
        else:
            out[k] = e1.get(k, e2.get(k))     # defined on one path only: temporaries are always written before use
    return out


def callee_of(t):
    f = t.get('func', {})
    return norm(f['fn']) if 'fn' in f else None


class Unroller:
    MAX_STEPS = 3_000_000

    def __init__(self, body, cfg, nmax):
        self.b, self.cfg, self.nmax = body, cfg, nmax
        self.obs = {}
        self.steps = 0
        self.loops = cfg.loops()

    # ------------------------------------------------------------------ obligations
    def ob(self, ok, what, line, detail):
        k = (what, line)
        o = self.obs.get(k)
        if o is None or (o.ok and not ok):
            self.obs[k] = Ob(ok, what, line, detail)

    # ------------------------------------------------------------------ values
    def place(self, env, p):
        v = env.get(p['l'], TOP)
        for e in p['proj']:
            if e == 'deref':
                continue
            if isinstance(e, dict) and 'dc' in e:
                if v[0] == 'some' and e.get('name') == 'Some':
                    v = ('tuple', (v[1],))
                elif v[0] == 'none':
                    v = TOP
                continue
            if isinstance(e, dict) and 'f' in e:
                if v[0] == 'tuple' and e['f'] < len(v[1]):
                    v = v[1][e['f']]
                else:
                    t = ty_range(e.get('ty'))
                    v = ('int', t[0], t[1]) if t else TOP
                continue
            v = TOP
        return v

    def operand(self, env, op):
        if op['k'] == 'const':
            v = op.get('v')
            if isinstance(v, bool):
                return ('int', int(v), int(v))
            if isinstance(v, int):
                return ('int', v, v)
            t = ty_range(op.get('ty'))
            return ('int', t[0], t[1]) if t else TOP
        if 'p' in op:
            return self.place(env, op['p'])
        return TOP

    def ty_of(self, op):
        if op['k'] == 'const':
            return op.get('ty')
        if 'p' in op and not op['p']['proj']:
            return self.b.local_ty(op['p']['l'])
        if 'p' in op:
            for e in reversed(op['p']['proj']):
                if isinstance(e, dict) and 'ty' in e:
                    return e['ty']
        return None

    def arith(self, op, a, b, ty, line, kind):
        t = ty_range(ty)
        if a[0] != 'int' or b[0] != 'int' or t is None:
            return ('int', t[0], t[1]) if t else TOP
        if op == 'Add':
            lo, hi = a[1] + b[1], a[2] + b[2]
        elif op == 'Sub':
            lo, hi = a[1] - b[2], a[2] - b[1]
        elif op == 'Mul':
            c = [a[1] * b[1], a[1] * b[2], a[2] * b[1], a[2] * b[2]]
            lo, hi = min(c), max(c)
        else:
            return ('int', t[0], t[1])
        ok = t[0] <= lo and hi <= t[1]
        if not ok and ((a[1], a[2]) == t or (b[1], b[2]) == t or a[2] - a[1] >= (1 << 63) or b[2] - b[1] >= (1 << 63)):
            # an operand "spans its whole type": that is what an unmodelled value looks like here (a tuple accumulator, a
            # value from a call), not a range the inputs can drive - no claim either way
            ok = None
        if not ok and ok is not None and op == 'Sub' and a[1] != a[2] and b[1] != b[2]:
            # `len - i` with i < len: intervals cannot see the relation between the two operands; a negative difference is
            # only a claim when one side is a single value
            ok = None
        self.ob(ok, '%s:%s' % (kind, op), line, '%s of [%d, %d] and [%d, %d] gives [%d, %d]; the type %s holds [%d, %d]' % (op, a[1], a[2], b[1], b[2], lo, hi, ty, t[0], t[1]))
        if ok:
            return ('int', lo, hi)
        return ('int', t[0], t[1])      # may have wrapped / panicked: anything in the type

    def rvalue(self, env, rv, line, dst_ty):
        k = rv['k']
        if k == 'use':
            return self.operand(env, rv['ops'][0])
        if k in ('ref', 'rawptr'):
            return self.place(env, rv['p'])
        if k == 'cast':
            v = self.operand(env, rv['ops'][0])
            t = ty_range(rv.get('ty'))
            if v[0] == 'int' and t and t[0] <= v[1] and v[2] <= t[1]:
                return v
            return ('int', t[0], t[1]) if t else TOP
        if k == 'bin':
            a, b = self.operand(env, rv['ops'][0]), self.operand(env, rv['ops'][1])
            op = rv['op']
            ty = self.ty_of(rv['ops'][0])
            if op in ('Lt', 'Le', 'Gt', 'Ge', 'Eq', 'Ne'):
                return ('int', 0, 1)
            if op.endswith('WithOverflow'):
                r = self.arith(op.replace('WithOverflow', ''), a, b, ty, line, 'checked')
                return ('tuple', (r, ('int', 0, 1)))
            if op in ('Add', 'Sub', 'Mul'):
                return self.arith(op, a, b, ty, line, 'plain')
            t = ty_range(ty)
            if a[0] == 'int' and b[0] == 'int' and a[1] >= 0 and b[1] >= 0:
                if op == 'Rem' and b[1] > 0:
                    return ('int', 0, min(a[2], b[2] - 1))
                if op == 'Div' and b[1] > 0:
                    return ('int', a[1] // b[2], a[2] // b[1])
                if op == 'BitAnd':
                    return ('int', 0, min(a[2], b[2]))
                if op == 'Shr':
                    return ('int', a[1] >> min(b[2], 200), a[2] >> b[1])
                if op in ('BitOr', 'BitXor'):
                    return ('int', 0, (1 << max(a[2], b[2]).bit_length()) - 1)
                if op == 'Shl' and b[2] < 200 and t:
                    hi = a[2] << b[2]
                    return ('int', 0, hi) if hi <= t[1] else ('int', t[0], t[1])
            return ('int', t[0], t[1]) if t else TOP
        if k == 'agg':
            ops = tuple(self.operand(env, o) for o in rv['ops'])
            if rv.get('vname') == 'Some':
                return ('some', ops[0])
            if rv.get('vname') == 'None':
                return ('none',)
            return ('tuple', ops)
        if k == 'discr':
            v = self.place(env, rv['p'])
            if v[0] == 'some':
                return ('int', 1, 1)
            if v[0] == 'none':
                return ('int', 0, 0)
            return ('int', 0, 1)
        t = ty_range(dst_ty)
        return ('int', t[0], t[1]) if t else TOP

    def call(self, env, t, line):
        c = callee_of(t) or '?'
        args = [self.operand(env, a) for a in t['args']]
        last = c.split('::')[-1]
        dty = self.b.local_ty(t['dst']['l']) if not t['dst']['proj'] else None
        if last == 'len' and args and args[0][0] == 'slice':
            return ('int', 0, args[0][1])
        if last in ('iter', 'into_iter') and args and args[0][0] == 'slice':
            return ('iter', 'bytes', args[0][1], None)
        if last in ('into_iter', 'by_ref') and args and args[0][0] == 'iter':
            return args[0]
        if last == 'enumerate' and args and args[0][0] == 'iter' and args[0][1] == 'bytes':
            return ('iter', 'enum', args[0][2], None)
        if last == 'chunks' and len(args) == 2 and args[0][0] == 'slice' and args[1][0] == 'int' and args[1][1] >= 1:
            k_ = args[1][2]
            return ('iter', 'chunks', -(-args[0][1] // max(args[1][1], 1)), k_)
        if last in ('wrapping_add', 'wrapping_sub', 'wrapping_mul') and len(args) == 2:
            ty = self.ty_of(t['args'][0])
            return self.arith({'wrapping_add': 'Add', 'wrapping_sub': 'Sub', 'wrapping_mul': 'Mul'}[last], args[0], args[1], ty, line, 'wrapping')
        if c in ('std::convert::From::from', 'std::convert::Into::into') and args and args[0][0] == 'int':
            t_ = ty_range(dty)
            return args[0] if t_ and t_[0] <= args[0][1] and args[0][2] <= t_[1] else (('int', t_[0], t_[1]) if t_ else TOP)
        if c in ('std::ops::Deref::deref', 'std::clone::Clone::clone') and args:
            return args[0]
        t_ = ty_range(dty)
        return ('int', t_[0], t_[1]) if t_ else TOP

    # ------------------------------------------------------------------ regions
    def run(self, env):
        """analyse the whole body from block 0; returns the joined state at the return"""
        return self.region(0, dict(env), stop=None, allowed=None)

    def region(self, start, env, stop, allowed):
        """forward dataflow over an acyclic region from `start` until `stop` (a loop head) or a return; nested loops are
        summarised by self.loop()."""
        work = {start: env}
        order = [start]
        done = None
        guard = 0
        while order:
            guard += 1
            if guard > 5000:
                raise Unsupported('region too large')
            bi = order.pop(0)
            e = work.pop(bi, None)
            if e is None:
                continue
            if stop is not None and bi == stop:
                done = join_env(done, e)
                continue
            if bi in self.loops and bi != start:
                bi, e = self.loop(bi, e)
                if bi is None:
                    continue
            if allowed is not None and bi not in allowed:
                raise Unsupported('leaves the loop body (break / early return) at block %d' % bi)
            blk = self.b.blocks[bi]
            e = dict(e)
            for st in blk['stmts']:
                self.steps += 1
                if self.steps > self.MAX_STEPS:
                    raise Unsupported('analysis budget exceeded')
                if st['dst']['proj']:
                    continue
                e[st['dst']['l']] = self.rvalue(e, st['rv'], st.get('line'), self.b.local_ty(st['dst']['l']))
            t = blk['term']
            k = t['k']
            succs = []
            if k in ('goto', 'drop', 'assert'):
                succs = [t['target']]
            elif k == 'call':
                if t.get('target') is None:
                    continue
                if not t['dst']['proj']:
                    e[t['dst']['l']] = self.call(e, t, t.get('line'))
                succs = [t['target']]
            elif k == 'switch':
                v = self.operand(e, t['on'])
                if v[0] == 'int' and v[1] == v[2]:
                    succs = [dict((a, b_) for a, b_ in t['targets']).get(v[1], t['otherwise'])]
                else:
                    succs = [tg for _, tg in t['targets']] + [t['otherwise']]
            elif k == 'return':
                done = join_env(done, e)
                continue
            elif k in ('resume', 'unreachable', 'terminate'):
                continue
            else:
                raise Unsupported('terminator %s' % k)
            for s_ in dict.fromkeys(succs):
                if s_ in work:
                    work[s_] = join_env(work[s_], e)
                else:
                    work[s_] = dict(e)
                    order.append(s_)
            # keep a topological flavour: process blocks with smaller index first (MIR is laid out in rough source order)
            order.sort()
        return done

    def loop(self, head, env):
        """a loop `while let Some(x) = it.next()`: run the body once per possible iteration on intervals"""
        blocks = self.loops[head]
        b = self.b
        next_bb = None
        for bi in sorted(blocks):
            t = b.blocks[bi]['term']
            if t['k'] == 'call' and callee_of(t) == 'std::iter::Iterator::next' and \
               not any(bi in self.loops[h] for h in self.loops if h != head and h in blocks):
                next_bb = bi
                break
        if next_bb is None:
            raise Unsupported('loop at block %d is not an iterator loop' % head)
        nt = b.blocks[next_bb]['term']
        sw = b.blocks[nt['target']]['term']
        if sw['k'] != 'switch':
            raise Unsupported('loop shape')
        tg = dict((a, b_) for a, b_ in sw['targets'])
        some_t = tg.get(1, sw['otherwise'])
        none_t = tg.get(0, sw['otherwise'])
        it_op = nt['args'][0]
        it = self.operand(prefix_env(self, b, head, next_bb, env), it_op)
        if it[0] != 'iter':
            raise Unsupported('loop over a non-modelled iterator (%s)' % (it,))
        kind, remaining, extra = it[1], it[2], it[3]
        exit_env = None
        cur = dict(env)

        def prefix(e):
            """the straight-line blocks from the loop head to the next() call (they only take `&mut iter`)"""
            e = dict(e)
            bi = head
            for _ in range(20):
                for st in b.blocks[bi]['stmts']:
                    if not st['dst']['proj']:
                        e[st['dst']['l']] = self.rvalue(e, st['rv'], st.get('line'), b.local_ty(st['dst']['l']))
                if bi == next_bb:
                    return e
                t_ = b.blocks[bi]['term']
                if t_['k'] not in ('goto', 'drop', 'assert'):
                    raise Unsupported('loop prefix is not straight-line')
                bi = t_['target']
            raise Unsupported('loop prefix too long')
        for k_ in range(remaining + 1):
            cur = prefix(cur)
            # exit edge: the iterator may be exhausted here
            e_none = dict(cur)
            e_none[nt['dst']['l']] = ('none',)
            exit_env = join_env(exit_env, e_none)
            if k_ == remaining:
                break
            if kind == 'bytes':
                item = ('int', 0, 255)
            elif kind == 'enum':
                item = ('tuple', (('int', 0, max(remaining - 1, 0)), ('int', 0, 255)))
            else:
                item = ('slice', extra)
            e_some = dict(cur)
            e_some[nt['dst']['l']] = ('some', item)
            nxt = self.region(some_t, e_some, stop=head, allowed=blocks)
            if nxt is None:
                break
            # fixpoint: nothing carried changed
            if all(nxt.get(l) == cur.get(l) for l in set(nxt) | set(cur) if l != nt['dst']['l']):
                cur = nxt
                e_none = dict(cur)
                e_none[nt['dst']['l']] = ('none',)
                exit_env = join_env(exit_env, e_none)
                break
            cur = nxt
        return none_t, exit_env


def prefix_env(u, b, head, next_bb, env):
    e = dict(env)
    bi = head
    for _ in range(20):
        for st in b.blocks[bi]['stmts']:
            if not st['dst']['proj']:
                e[st['dst']['l']] = u.rvalue(e, st['rv'], st.get('line'), b.local_ty(st['dst']['l']))
        if bi == next_bb:
            return e
        t_ = b.blocks[bi]['term']
        if t_['k'] not in ('goto', 'drop', 'assert'):
            raise Unsupported('loop prefix is not straight-line')
        bi = t_['target']
    raise Unsupported('loop prefix too long')


def wrap_free(body, cfg, env, nmax):
    """-> (list of Ob, None) or (None, reason) when the function is outside this model too"""
    u = Unroller(body, cfg, nmax)
    try:
        u.run(env)
    except Unsupported as e:
        return None, str(e)
    return list(u.obs.values()), None
