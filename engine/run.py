#!/usr/bin/python3
"""Entry point: `run.py <PROPERTY> [--tier quick|thorough]`.

Exit codes: 0 held (possibly KNOWN-FINDING lines) / 1 unlisted violation(s) / 2 no verdict
(infrastructure failure, missing anchor, undecided construct).
"""
import importlib
import json
import os
import re
import sys
import time
import traceback

HERE = os.path.dirname(os.path.abspath(__file__))
VERIF = os.path.dirname(HERE)
OUT = os.environ.get('COPIA_VERIF_OUT', VERIF)
sys.path.insert(0, HERE)

import extract  # noqa: E402
from facts import Facts  # noqa: E402
import flow  # noqa: E402


from verdict import NoVerdict  # noqa: E402
import inline  # noqa: E402


class Ctx:
    def __init__(self, prop, tier, facts_by_cfg, tree_key):
        self.prop = prop
        self.tier = tier
        self.F = facts_by_cfg
        self.tree_key = tree_key
        self.violations = {}     # key -> dict
        self.obligations = []    # dicts: rule, key, ok, detail
        self.rules = {}          # rule id -> {'text':..., 'instances':n, 'floor':n}
        self.notes = []
        self.pending = []        # undecided constructs: reported as NO-VERDICT at the end unless a violation was established
        self.interproc = {cfg: flow.Interproc(F) for cfg, F in facts_by_cfg.items()}

    # ---- rule bookkeeping
    def rule(self, rid, text, floor=None):
        self.rules.setdefault(rid, {'text': text, 'instances': 0, 'holding': 0, 'floor': floor})

    def ok(self, rid, key, detail='', loc=None):
        self.rules[rid]['instances'] += 1
        self.rules[rid]['holding'] += 1
        self.obligations.append({'rule': rid, 'key': key, 'ok': True, 'detail': detail, 'loc': loc})

    def bad(self, rid, key, msg, loc=None, path=None):
        """Record a violated instance. `key` is stable (no line numbers)."""
        self.rules[rid]['instances'] += 1
        k = '%s:%s' % (rid, key)
        self.obligations.append({'rule': rid, 'key': key, 'ok': False, 'detail': msg, 'loc': loc})
        v = self.violations.get(k)
        if v is None:
            self.violations[k] = {'key': k, 'rule': rid, 'rule_text': self.rules[rid]['text'],
                                  'message': msg, 'loc': loc, 'cfg_path': path}

    def check(self, cond, rid, key, ok_detail, bad_msg, loc=None, path=None):
        if cond:
            self.ok(rid, key, ok_detail, loc)
        else:
            self.bad(rid, key, bad_msg, loc, path)
        return bool(cond)

    def missing(self, rid, symbol):
        raise NoVerdict('anchor-missing: %s %s' % (rid, symbol))

    def attempt(self, fn, *args, **kw):
        """run one rule function; a missing anchor inside it is recorded (the run ends NO-VERDICT unless some rule
        established a violation) instead of stopping the other rules of the property"""
        try:
            return fn(*args, **kw)
        except NoVerdict as e:
            self.pending.append(str(e))
            return None

    def undecided(self, rid, what):
        """A construct the rule's model does not cover: the other rules still run; the run ends NO-VERDICT (exit 2)
        unless some rule established a violation."""
        self.pending.append('undecided: %s %s' % (rid, what))

    def need(self, thing, rid, symbol):
        if thing is None or thing == [] or thing == {}:
            self.missing(rid, symbol)
        return thing

    def finish_floors(self):
        for rid, r in self.rules.items():
            if r['floor'] is not None and r['instances'] < r['floor']:
                raise NoVerdict('anchor-missing: %s matched %d instance(s), floor %d — the checker no longer sees '
                                'what it was written for' % (rid, r['instances'], r['floor']))

    def note(self, s):
        self.notes.append(s)


def loc_of(body, line):
    return '%s:%d (%s)' % (body.file, line, body.path)


def load_known():
    p = os.path.join(VERIF, 'known_findings.json')
    if not os.path.exists(p):
        return []
    with open(p) as fh:
        return json.load(fh).get('findings', [])


LEVELS = {}


def main(argv):
    if len(argv) < 2:
        print('usage: run.py <PROPERTY> [--tier quick|thorough]')
        return 2
    prop = argv[1]
    tier = os.environ.get('VERIF_TIER', 'quick')
    if '--tier' in argv:
        tier = argv[argv.index('--tier') + 1]
    if tier not in ('quick', 'thorough'):
        tier = 'quick'
    seed = int(os.environ.get('VERIF_SEED', '0') or 0)
    t0 = time.time()
    try:
        mod = importlib.import_module('rules.' + prop)
    except ImportError as e:
        print('no rule module for %s: %s' % (prop, e))
        return 2
    cfgs = list(getattr(mod, 'CONFIGS', ['default', 'cli']))
    if tier == 'thorough':
        for c in getattr(mod, 'THOROUGH_CONFIGS', ['cli-release-flags']):
            if c not in cfgs:
                cfgs.append(c)
    ctx = None
    try:
        dirs, key = extract.ensure(cfgs)
        F = {}
        for cfg in cfgs:
            F[cfg] = Facts(cfg, dirs[cfg])
            flow.register_enums(F[cfg])
        inlined = []
        for cfg in cfgs:
            inlined += ['%s: %s -> %s' % (cfg, c, p) for c, p in inline.apply(F[cfg])]
        ctx = Ctx(prop, tier, F, key)
        for x in sorted(set(inlined)):
            ctx.note('helper spliced into its caller for analysis (inline.py): ' + x)
        mod.run(ctx)
        # positive controls: the rule set must fire on its own violating twins
        if hasattr(mod, 'controls'):
            mod.controls(ctx)
        if not ctx.violations:
            if ctx.pending:
                # the undecided construct is the informative part (a floor usually falls short BECAUSE a rule stopped there)
                raise NoVerdict('; '.join(ctx.pending))
            ctx.finish_floors()     # a reported violation is a verdict; floors guard silent passes
        else:
            for p_ in ctx.pending:
                ctx.note('partial run: %s' % p_)
    except extract.InfraError as e:
        print('INFRA-FAILURE property=%s: %s' % (prop, e))
        return 2
    except NoVerdict as e:
        print('NO-VERDICT property=%s: %s' % (prop, e))
        if ctx is None or not ctx.violations:
            return 2
        # violations already established stand on their own; the missing anchor is reported alongside
        ctx.note('partial run: %s' % e)
    except Exception:
        print('INFRA-FAILURE property=%s: checker crashed' % prop)
        traceback.print_exc()
        return 2

    known = [k for k in load_known() if k.get('property') == prop]
    known_by_key = {k['key']: k for k in known if k.get('status') == 'known'}
    os.makedirs(os.path.join(OUT, 'reports'), exist_ok=True)
    os.makedirs(os.path.join(OUT, 'evidence'), exist_ok=True)
    new = []
    printed_known = []
    for k, v in sorted(ctx.violations.items()):
        if k in known_by_key:
            printed_known.append(k)
            print('KNOWN-FINDING: property=%s %s — %s [%s]' % (prop, k, known_by_key[k].get('what', v['message']), v['loc']))
            continue
        new.append(v)
    for v in new:
        rp = os.path.join(OUT, 'reports', '%s-%s.json' % (prop, re.sub(r'[^A-Za-z0-9_.-]+', '_', v['key'])[:150]))
        with open(rp, 'w') as fh:
            json.dump({'property': prop, 'tree_key': ctx.tree_key, **v}, fh, indent=1)
        print('%s: %s: %s' % (v['loc'], v['key'], v['message']))
        print('VIOLATION property=%s replay=%s' % (prop, rp))

    n_ob = len(ctx.obligations)
    n_ok = sum(1 for o in ctx.obligations if o['ok'])
    level = getattr(mod, 'LEVEL', 'other')
    samples = []
    seen_rules = set()
    for o in ctx.obligations:
        if o['rule'] not in seen_rules or len(samples) < 12:
            seen_rules.add(o['rule'])
            samples.append({'rule': o['rule'], 'instance': o['key'], 'holds': o['ok'], 'detail': o['detail'], 'loc': o['loc']})
        if len(samples) >= 40:
            break
    bodies = {cfg: len(f.bodies) for cfg, f in ctx.F.items()}
    calls = {cfg: sum(1 for b in f.bodies.values() for blk in b.blocks if blk['term']['k'] == 'call') for cfg, f in ctx.F.items()}
    distinct = len({(o['rule'], o['key']) for o in ctx.obligations})
    cov = {
        'explanation': getattr(mod, 'EXPLANATION', ''),
        'obligations': n_ob,
        'discharged': n_ok,
        'evaluations': n_ob,
        'distinct_nontrivial': distinct,
        'rule': 'one obligation per (rule, instance) enumerated from the MIR/AST facts of /repo; distinct = distinct (rule, instance-key) pairs',
        'samples': samples,
        'rules': [{'id': rid, 'text': r['text'], 'instances': r['instances'], 'holding': r['holding'], 'floor': r['floor']}
                  for rid, r in sorted(ctx.rules.items())],
        'configurations': cfgs,
        'mir_bodies_loaded': bodies,
        'call_sites_loaded': calls,
        'tree_sha256': ctx.tree_key,
        'known_findings_printed': printed_known,
        'new_violations': [v['key'] for v in new],
        'notes': ctx.notes,
        'checker_cmd': './check %s --tier %s' % (prop, tier),
        'trusted_base': ['rustc nightly MIR construction and trait resolution', 'driver/src/main.rs serialisation',
                         'engine tables (identity calls, effect classes, exception tables)'],
    }
    if getattr(mod, 'EXHAUSTIVE', False):
        cov['exhaustive'] = True
    if tier == 'thorough' and not os.environ.get('COPIA_VERIF_OUT'):
        # self-validation on seeded mutants of this property (scratch copies under mktemp, removed afterwards);
        # informational: it validates the checker, it does not change the verdict on /repo
        try:
            sys.path.insert(0, os.path.join(VERIF, 'selftest'))
            import mutate
            res, stale = mutate.run_for_property(prop, jobs=8)
            cov['selftest_mutants'] = {
                'total': len(res), 'stale_patterns': stale,
                'breaking_detected': sum(1 for r in res if not r['benign'] and r.get('detected')),
                'breaking_total': sum(1 for r in res if not r['benign'] and not r['stale']),
                'benign_silent': sum(1 for r in res if r['benign'] and r.get('silent')),
                'benign_total': sum(1 for r in res if r['benign'] and not r['stale']),
                'missed': [r['id'] for r in res if not r['stale'] and not (r.get('detected') or r.get('silent'))],
            }
            print('selftest: %s' % cov['selftest_mutants'])
        except Exception as e:      # never let the self-test break the verdict
            cov['selftest_mutants'] = {'error': str(e)}
    ev = {
        'property_id': prop, 'tier': tier, 'seed': seed, 'level': level, 'coverage': cov,
        'assumptions': list(getattr(mod, 'ASSUMPTIONS', [])),
        'wall_s': round(time.time() - t0, 3),
        'violations': len(new),
    }
    with open(os.path.join(OUT, 'evidence', prop + '.json'), 'w') as fh:
        json.dump(ev, fh, indent=1, default=str)
    print('%s: %d obligation(s), %d holding, %d known finding(s), %d new violation(s) [%s, %.1fs]' % (
        prop, n_ob, n_ok, len(printed_known), len(new), tier, time.time() - t0))
    return 1 if new else 0


if __name__ == '__main__':
    sys.exit(main(sys.argv))
