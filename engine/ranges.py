"""Intraprocedural value-range analysis over MIR, used to discharge arithmetic-overflow assertions whose operands are
bounded by the shape of the code itself: constants, masks, shifts, remainders, widening casts, and — for subtraction — a
dominating comparison of the same two values.

Sound by construction: every case returns an interval that contains all run-time values of the operand; anything not
understood widens to the full range of the operand's type, which never discharges anything.  Flow-insensitive (the hull
of all definitions of a local), so loop-carried values widen to their type."""

INT = {}
for _bits in (8, 16, 32, 64, 128):
    INT['u%d' % _bits] = (0, 2 ** _bits - 1)
    INT['i%d' % _bits] = (-2 ** (_bits - 1), 2 ** (_bits - 1) - 1)
INT['usize'] = INT['u64']
INT['isize'] = INT['i64']
INT['bool'] = (0, 1)
INT['char'] = (0, 0x10FFFF)


def ty_range(ty):
    return INT.get((ty or '').strip())


def hull(a, b):
    if a is None or b is None:
        return None
    return (min(a[0], b[0]), max(a[1], b[1]))


def clip(r, t):
    if r is None or t is None:
        return t
    lo, hi = max(r[0], t[0]), min(r[1], t[1])
    return (lo, hi) if lo <= hi else t


class Ranges:
    def __init__(self, fl):
        self.fl = fl
        self.b = fl.body
        self.memo = {}
        self.busy = set()
        # locals whose address is taken mutably can change behind the definitions we see
        self.escaped = set()
        for blk in self.b.blocks:
            for st in blk['stmts']:
                rv = st['rv']
                if (rv['k'] == 'ref' and rv.get('mut')) or rv['k'] == 'rawptr':
                    self.escaped.add(rv['p']['l'])

    # ------------------------------------------------------------------ operands
    def const_val(self, op):
        if op.get('k') == 'const':
            v = op.get('v')
            if isinstance(v, bool):
                return int(v)
            if isinstance(v, int):
                return v
            os_ = self.fl.origins(op)
            if len(os_) == 1:
                o = list(os_)[0]
                if o.kind == 'const' and isinstance(o.key, int) and not isinstance(o.key, bool):
                    return o.key
        return None

    def op_ty(self, op):
        if op.get('k') == 'const':
            return op.get('ty')
        p = op.get('p')
        if p is None:
            return None
        ty = self.b.local_ty(p['l'])
        for e in p['proj']:
            if isinstance(e, dict) and 'ty' in e:
                ty = e['ty']
            elif e == 'deref':
                ty = ty.lstrip('&').replace('mut ', '', 1).strip() if ty.startswith('&') else None
            else:
                ty = None
            if ty is None:
                return None
        return ty

    def op_range(self, op):
        if op.get('k') == 'const':
            v = self.const_val(op)
            if v is not None:
                return (v, v)
            return ty_range(op.get('ty'))
        p = op.get('p')
        if p is None:
            return None
        proj = p['proj']
        if not proj:
            return self.local_range(p['l'])
        # (checked-op tuple).0 : the mathematical result, known not to have wrapped once the assert passed
        if len(proj) == 1 and isinstance(proj[0], dict) and proj[0].get('f') == 0:
            defs = self.fl.defs.get(p['l'], [])
            if defs and all(kind == 'assign' and data['k'] == 'bin' and data['op'].endswith('WithOverflow') and not dproj
                            for (_, _, kind, data, dproj) in defs):
                r = None
                first = True
                for (_, _, kind, data, dproj) in defs:
                    m = self.math(data['op'].replace('WithOverflow', ''), data['ops'])
                    r = m if first else hull(r, m)
                    first = False
                return clip(r, ty_range(proj[0].get('ty')))
        return ty_range(self.op_ty(op))

    def local_range(self, l):
        t = ty_range(self.b.local_ty(l))
        if t is None:
            return None
        if l in self.memo:
            return self.memo[l]
        if l in self.busy:
            return t
        defs = self.fl.defs.get(l, [])
        if not defs or 1 <= l <= self.b.argc or l in self.escaped:
            return t
        self.busy.add(l)
        r = None
        first = True
        for (bb, idx, kind, data, dproj) in defs:
            if dproj or kind != 'assign':
                x = t
            else:
                x = clip(self.rv_range(data, t), t) if self.rv_range(data, t) is not None else t
            r = x if first else hull(r, x)
            first = False
        self.busy.discard(l)
        r = clip(r, t)
        self.memo[l] = r
        return r

    def rv_range(self, rv, t):
        k = rv['k']
        if k == 'use':
            return self.op_range(rv['ops'][0])
        if k == 'cast':
            r = self.op_range(rv['ops'][0])
            tt = ty_range(rv.get('ty'))
            if r is not None and tt is not None and tt[0] <= r[0] and r[1] <= tt[1]:
                return r
            return tt
        if k == 'bin':
            op = rv['op']
            if op.endswith('WithOverflow'):
                return None
            m = self.math(op, rv['ops'])
            if m is None:
                return t
            if op in ('Add', 'Sub', 'Mul', 'Shl') and not (t[0] <= m[0] and m[1] <= t[1]):
                return t    # an unchecked op that may wrap
            return m
        if k == 'discr':
            return None
        return t

    def math(self, op, ops):
        a, b = self.op_range(ops[0]), self.op_range(ops[1])
        if op in ('Eq', 'Ne', 'Lt', 'Le', 'Gt', 'Ge'):
            return (0, 1)
        if a is None or b is None:
            return None
        if op == 'Add':
            return (a[0] + b[0], a[1] + b[1])
        if op == 'Sub':
            return (a[0] - b[1], a[1] - b[0])
        if op == 'Mul':
            c = [a[0] * b[0], a[0] * b[1], a[1] * b[0], a[1] * b[1]]
            return (min(c), max(c))
        if a[0] < 0 or b[0] < 0:
            return None
        if op == 'BitAnd':
            return (0, min(a[1], b[1]))
        if op == 'BitOr' or op == 'BitXor':
            n = max(a[1], b[1]).bit_length()
            return (0, 2 ** n - 1)
        if op == 'Shr':
            return (a[0] >> min(b[1], 200), a[1] >> b[0])
        if op == 'Shl':
            if b[1] > 200:
                return None
            return (a[0] << b[0], a[1] << b[1])
        if op == 'Rem' and b[0] > 0:
            return (0, min(a[1], b[1] - 1))
        if op == 'Div' and b[0] > 0:
            return (a[0] // b[1], a[1] // b[0])
        return None

    # ------------------------------------------------------------------ value identity (for path guards)
    def root(self, op, depth=0):
        if op.get('k') == 'const':
            v = self.const_val(op)
            return ('c', v if v is not None else op.get('dbg'))
        p = op.get('p')
        if p is None or p['proj']:
            return ('p', repr(p))
        l = p['l']
        defs = self.fl.defs.get(l, [])
        if l in self.escaped:
            return ('m', l)
        if len(defs) == 1 and depth < 12 and not (1 <= l <= self.b.argc):
            (bb, idx, kind, data, dproj) = defs[0]
            if kind == 'assign' and not dproj and data['k'] == 'use':
                src = data['ops'][0]
                if src.get('k') == 'const' or not src['p']['proj']:
                    return self.root(src, depth + 1)
                return ('l', l)     # a single definition from a projected place: this local is the value's name
            if kind == 'assign' and not dproj and data['k'] == 'cast':
                r = self.op_range(data['ops'][0])
                tt = ty_range(data.get('ty'))
                if r is not None and tt is not None and tt[0] <= r[0] and r[1] <= tt[1]:
                    return self.root(data['ops'][0], depth + 1)     # value-preserving widening
            return ('l', l)
        if len(defs) == 0 or (1 <= l <= self.b.argc and not defs):
            return ('l', l)
        return ('m', l)     # several definitions: identity across program points is not established

    def sub_guarded(self, bi, ops):
        """The block `bi` computing a - b is reachable only where a >= b was tested on the same two values."""
        fl, b = self.fl, self.b
        ra, rb = self.root(ops[0]), self.root(ops[1])
        if ra[0] in ('m', 'p') or rb[0] in ('m', 'p'):
            return None
        for ab in fl.cfg.reachable():
            for si, st in enumerate(b.blocks[ab]['stmts']):
                rv = st['rv']
                if rv['k'] != 'bin' or rv['op'] not in ('Ge', 'Gt', 'Le', 'Lt') or st['dst']['proj']:
                    continue
                x, y = self.root(rv['ops'][0]), self.root(rv['ops'][1])
                op = rv['op']
                want = None
                if (x, y) == (ra, rb):          # a ? b
                    want = {'Ge': 'true', 'Gt': 'true', 'Lt': 'false', 'Le': None}.get(op)
                elif (x, y) == (rb, ra):        # b ? a
                    want = {'Le': 'true', 'Lt': 'true', 'Gt': 'false', 'Ge': None}.get(op)
                if not want:
                    continue
                oc = fl.outcomes(None, st['dst']['l'])
                es = oc.get(want, set())
                if es and fl.cfg.edges_guard(es, bi) and self.not_redefined(ab, si, es, bi, (ra, rb)):
                    return 'guarded by the %s edge of %s on the same operands (line %s)' % (want, op, st.get('line'))
        return None

    def not_redefined(self, cmp_bb, cmp_idx, edges, use_bb, roots):
        """Neither compared value is defined again on a path from the comparison's edge to the use (loops)."""
        cfg = self.fl.cfg
        targets = {e[1] for e in edges}
        after = set()
        for t in targets:
            after |= cfg.reach(t)
        for r in roots:
            if r[0] != 'l':
                continue
            for (dbb, didx, kind, data, dproj) in self.fl.defs.get(r[1], []):
                if dbb == cmp_bb and kind == 'assign' and isinstance(didx, int) and didx < cmp_idx:
                    continue    # re-executing it re-executes the comparison that follows it
                if dbb in after and use_bb in cfg.reach(dbb):
                    return False
        return True

    # ------------------------------------------------------------------ the discharge
    def overflow_safe(self, bi, data):
        """data = the `XWithOverflow(a, b)` rvalue whose flag the assert in block `bi` tests.  Returns a reason or None."""
        op = data['op'].replace('WithOverflow', '')
        t = ty_range(self.op_ty(data['ops'][0]))
        if t is None:
            return None
        m = self.math(op, data['ops'])
        if m is not None and t[0] <= m[0] and m[1] <= t[1] and op in ('Add', 'Sub', 'Mul'):
            a, b = self.op_range(data['ops'][0]), self.op_range(data['ops'][1])
            return 'operand ranges [%d, %d] %s [%d, %d] stay inside the type' % (a[0], a[1], {'Add': '+', 'Sub': '-', 'Mul': '*'}[op], b[0], b[1])
        if op == 'Sub' and t[0] == 0:
            return self.sub_guarded(bi, data['ops'])
        return None
