"""Crate-local call graph over resolved callees (WMC primitive)."""
from collections import defaultdict

from facts import callee, callee_resolved, norm


class CallGraph:
    def __init__(self, F):
        self.F = F
        self.edges = defaultdict(set)      # body -> local bodies it may call / create
        self.ext = defaultdict(list)       # body -> [(callee path, bb)] for every call (local or not)
        self.rev = defaultdict(set)
        for path, b in F.bodies.items():
            for bi, blk in enumerate(b.blocks):
                t = blk['term']
                if t['k'] == 'call':
                    c = callee_resolved(t)
                    d = callee(t)
                    if c is not None:
                        self.ext[path].append((d, bi))
                        for cand in (c, d):
                            if cand in F.bodies:
                                self.edges[path].add(cand)
                    for a in t['args']:
                        if a['k'] == 'const' and 'fn' in a:
                            fp = norm(a.get('fn_resolved') or a['fn'])
                            if fp in F.bodies:
                                self.edges[path].add(fp)
                for st in blk['stmts']:
                    rv = st['rv']
                    if rv['k'] == 'agg' and rv.get('ak') in ('closure', 'coroutine'):
                        dp = norm(rv['def'])
                        if dp in F.bodies:
                            self.edges[path].add(dp)
                    for o in rv.get('ops', []):
                        if o['k'] == 'const' and 'fn' in o:
                            fp = norm(o.get('fn_resolved') or o['fn'])
                            if fp in F.bodies:
                                self.edges[path].add(fp)
        for s, ts in self.edges.items():
            for t in ts:
                self.rev[t].add(s)

    def reach(self, roots):
        seen = set()
        stack = [r for r in roots if r in self.F.bodies]
        while stack:
            x = stack.pop()
            if x in seen:
                continue
            seen.add(x)
            stack.extend(self.edges.get(x, ()))
        return seen

    def callers(self, path):
        return set(self.rev.get(path, ()))

    def call_sites(self, callee_pred, within=None):
        """[(body, bb, callee)] of every call whose declared callee satisfies pred."""
        out = []
        for path, lst in self.ext.items():
            if within is not None and path not in within:
                continue
            for c, bi in lst:
                if callee_pred(c):
                    out.append((self.F.bodies[path], bi, c))
        return out

    def reaches_callee(self, root, callee_pred):
        """Does any body reachable from `root` call a callee satisfying pred? -> list of sites."""
        return self.call_sites(callee_pred, within=self.reach([root]))


_cg_cache = {}


def callgraph_of(F):
    k = id(F)
    if k not in _cg_cache:
        _cg_cache[k] = CallGraph(F)
    return _cg_cache[k]
