"""Fact extraction with a content-hash cache (DESIGN §3.1 'Freshness').

Facts are a pure function of /repo's working tree.  A configuration is re-extracted
whenever the tree hash differs from the one recorded next to its facts.
"""
import fcntl
import hashlib
import os
import shutil
import subprocess
import sys
import time

VERIF = os.path.dirname(os.path.dirname(os.path.abspath(__file__)))
REPO = os.environ.get('COPIA_REPO', '/repo')
CACHE = os.environ.get('COPIA_VERIF_CACHE', os.path.join(VERIF, '.cache'))
DRIVER_DIR = os.path.join(VERIF, 'driver')
DRIVER = os.path.join(DRIVER_DIR, 'target', 'release', 'copia-facts')

CONFIGS = {
    # name: (cargo args, extra rustflags)
    'default': (['--lib'], ''),
    'cli': (['--lib', '--bins', '--features', 'cli'], ''),
    'cli-release-flags': (['--lib', '--bins', '--features', 'cli'],
                          ' -C debug-assertions=off -C overflow-checks=off'),
}
EXPECTED_FILES = {
    'default': ['copia-lib.json'],
    'cli': ['copia-lib.json', 'copia-bin.json'],
    'cli-release-flags': ['copia-lib.json', 'copia-bin.json'],
}


class InfraError(Exception):
    pass


def tree_hash(repo=None):
    repo = repo or REPO
    h = hashlib.sha256()
    files = []
    for root, dirs, fs in os.walk(repo):
        rel = os.path.relpath(root, repo)
        if rel == '.':
            dirs[:] = [d for d in dirs if d not in ('target', '.git')]
        dirs.sort()
        for f in fs:
            files.append(os.path.join(root, f))
    for p in sorted(files):
        try:
            with open(p, 'rb') as fh:
                data = fh.read()
        except OSError:
            continue
        h.update(os.path.relpath(p, repo).encode())
        h.update(b'\0')
        h.update(hashlib.sha256(data).digest())
    # the driver itself is part of the key
    try:
        with open(os.path.join(DRIVER_DIR, 'src', 'main.rs'), 'rb') as fh:
            h.update(fh.read())
    except OSError:
        pass
    return h.hexdigest()


def nightly_sysroot():
    return subprocess.check_output(['rustc', '+nightly', '--print', 'sysroot'], text=True).strip()


def build_driver():
    src = os.path.join(DRIVER_DIR, 'src', 'main.rs')
    if os.path.exists(DRIVER) and os.path.getmtime(DRIVER) >= os.path.getmtime(src):
        return
    env = dict(os.environ, CARGO_NET_OFFLINE='true')
    r = subprocess.run(['cargo', 'build', '--release', '--offline'], cwd=DRIVER_DIR, env=env,
                       stdout=subprocess.PIPE, stderr=subprocess.STDOUT, text=True)
    if r.returncode != 0 or not os.path.exists(DRIVER):
        raise InfraError('driver build failed:\n' + r.stdout[-4000:])


def _extract(cfg, key, repo):
    args, flags = CONFIGS[cfg]
    fdir = os.path.join(CACHE, 'facts', cfg)
    tdir = os.path.join(CACHE, 'target-' + cfg)
    if os.path.isdir(fdir):
        shutil.rmtree(fdir)
    os.makedirs(fdir)
    os.makedirs(tdir, exist_ok=True)
    # cargo would replay cached output and skip the wrapper: forget the workspace member
    fp = os.path.join(tdir, 'debug', '.fingerprint')
    if os.path.isdir(fp):
        for d in os.listdir(fp):
            if d.startswith('copia-'):
                shutil.rmtree(os.path.join(fp, d), ignore_errors=True)
    env = dict(os.environ)
    env.update({
        'CARGO_NET_OFFLINE': 'true',
        'LD_LIBRARY_PATH': os.path.join(nightly_sysroot(), 'lib') + ':' + env.get('LD_LIBRARY_PATH', ''),
        'RUSTFLAGS': '-Zmir-opt-level=0 -Awarnings' + flags,
        'RUSTC_WORKSPACE_WRAPPER': DRIVER,
        'COPIA_FACTS_DIR': fdir,
        'CARGO_TARGET_DIR': tdir,
    })
    env.pop('RUSTUP_TOOLCHAIN', None)
    cmd = ['cargo', '+nightly', 'check', '--offline'] + args
    r = subprocess.run(cmd, cwd=repo, env=env, stdout=subprocess.PIPE, stderr=subprocess.STDOUT, text=True)
    if r.returncode != 0:
        raise InfraError('cargo check failed for cfg %s (the tree does not compile?):\n%s' % (cfg, r.stdout[-6000:]))
    for f in EXPECTED_FILES[cfg]:
        if not os.path.exists(os.path.join(fdir, f)):
            raise InfraError('fact file %s missing for cfg %s\n%s' % (f, cfg, r.stdout[-3000:]))
    with open(os.path.join(fdir, 'KEY'), 'w') as fh:
        fh.write(key)


def ensure(cfgs, repo=None):
    """Make sure facts for `cfgs` match the current tree. Returns {cfg: facts dir}."""
    repo = repo or REPO
    os.makedirs(CACHE, exist_ok=True)
    with open(os.path.join(CACHE, 'lock'), 'w') as lock:
        fcntl.flock(lock, fcntl.LOCK_EX)
        build_driver()
        key = tree_hash(repo)
        out = {}
        for cfg in cfgs:
            fdir = os.path.join(CACHE, 'facts', cfg)
            kf = os.path.join(fdir, 'KEY')
            cur = None
            if os.path.exists(kf):
                with open(kf) as fh:
                    cur = fh.read().strip()
            if cur != key or not all(os.path.exists(os.path.join(fdir, f)) for f in EXPECTED_FILES[cfg]):
                t0 = time.time()
                _extract(cfg, key, repo)
                sys.stderr.write('[extract] cfg=%s %.1fs\n' % (cfg, time.time() - t0))
            out[cfg] = fdir
        return out, key


if __name__ == '__main__':
    cfgs = sys.argv[1:] or ['default', 'cli']
    try:
        d, k = ensure(cfgs)
        print(k, d)
    except InfraError as e:
        sys.stderr.write(str(e) + '\n')
        sys.exit(2)
