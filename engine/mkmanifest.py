#!/usr/bin/python3
"""Regenerate MANIFEST.json from the rule modules (claimed properties = modules present in CLAIMED)."""
import importlib
import json
import os
import sys

HERE = os.path.dirname(os.path.abspath(__file__))
VERIF = os.path.dirname(HERE)
sys.path.insert(0, HERE)

TECH = {
    'C01': 'MIR dominance + provenance rules (confirmed-copy, accounting, header dataflow, one matcher)',
    'C02': 'MIR edge-dominance / provenance rules over apply, must-pass-through of the record, plan-integrity dataflow, decision-DAG table (no solver)',
    'C03': 'held-region (wrapper) analysis, read-compare-write dominance, reply truthfulness, DD of cas_decide',
    'C04': 'plan->effect provenance, effect whitelist over the call graph, error discipline, shell-template analysis',
    'C05': 'MIR path rule: edge dominance of every Ok return + hash/write pairing + panic reachability',
    'C06': 'effect-set emptiness over the call graph, per-arm record dataflow, symbolic evaluation of the conflict-copy name, must-pass-through of the record',
    'C07': 'MIR edge dominance (Archive::load guards), taint of trust_base/base, decision-DAG (no delete without base), canonicalize provenance of the pair key',
    'C08': 'MIR dominance chains (stage -> sync -> rename -> record), who-may-call over the bisync call graph',
    'C09': 'MIR dominance chains for staged delivery + shell-template analysis of the push command',
    'C10': 'who-may-write + edge dominance of the commit rename on hash equality / fsync / length',
    'C11': 'interprocedural taint from request paths to fs sinks through safe_join; guard exhaustiveness',
    'C12': 'edge dominance (prologue before effects), bounded-allocation guard, panic reachability with interval discharge, EOF exits, in-step reachability rule over the serve loop',
    'C13': 'MIR provenance of Put arguments, loop/continuation shape, effect ceiling in hub.rs',
    'C14': 'decision-DAG of needs_transfer, mtime provenance (pure copy chain), unit table, stat-kind agreement (provenance of FileMeta), error discipline',
    'C15': 'edge dominance in build_plan, glob_match as a loop-head transition system compared with the classic matcher over all atom valuations (symbolic path enumeration, no solver), dry-run effect guard',
    'C16': 'window-invariant dataflow in the scan loops + shared AR certification of both checksum producers',
    'C17': 'abstract interpretation (polynomial residues + interval bounds) of checksum.rs MIR; no solver',
    'C18': 'decision-DAG extraction by abstract interpretation of MIR, exhaustive over consistent valuations; dataflow + must-pass-through over reconcile (loop or iterator chain)',
    'C19': 'edge dominance in build_plan, DD of needs_transfer, glob_match transition system vs the classic matcher (symbolic path enumeration over MIR, exhaustive over atom valuations), listing writer/reader table',
    'C20': 'codec table agreement (encode/decode/from_u8), validate-before-allocate dominance (all bodies), panic reachability with interval discharge',
}
ENGINE = {p: 'copia-static' for p in TECH}


def main():
    props = [json.loads(l) for l in open(os.path.join(VERIF, 'properties.jsonl'))]
    claimed = []
    for p in props:
        pid = p['id']
        if os.path.exists(os.path.join(HERE, 'rules', pid + '.py')):
            claimed.append(pid)
    na_path = os.path.join(VERIF, 'not_applicable.json')
    na_reasons = json.load(open(na_path)) if os.path.exists(na_path) else {}
    checks = []
    for pid in claimed:
        mod = importlib.import_module('rules.' + pid)
        if getattr(mod, 'UNCLAIMED', False):
            continue
        checks.append({
            'property_id': pid,
            'quick_cmd': './check %s --tier quick' % pid,
            'thorough_cmd': './check %s --tier thorough' % pid,
            'evidence_file': 'evidence/%s.json' % pid,
            'replay_cmd_template': 'cat {path}',
            'engine': 'copia-static',
            'level_claimed': {
                'category': getattr(mod, 'LEVEL', 'other'),
                'text': mod.EXPLANATION,
                'design_ref': 'DESIGN.md section 7, %s' % pid,
            },
            'level_note': 'Trusted base: rustc nightly MIR construction and trait resolution; the fact extractor driver/src/main.rs; the frozen tables in engine/tables.py; ' +
                          '; '.join(getattr(mod, 'ASSUMPTIONS', [])),
            'technique': 'static analysis: ' + TECH[pid],
        })
    done = {c['property_id'] for c in checks}
    na = []
    for p in props:
        if p['id'] not in done:
            na.append({'property_id': p['id'],
                       'reason': na_reasons.get(p['id'], 'check not built yet (framework under construction; DESIGN.md section 7 lists the planned static rules)')})
    m = {
        'version': 1,
        'setup_cmd': 'cd /verif && /usr/bin/python3 engine/extract.py default cli cli-release-flags',
        'hooks': {
            'guard': 'paiml_copia_verif',
            'enable': 'none needed: the checks analyse /repo\'s source through a rustc_private driver (RUSTC_WORKSPACE_WRAPPER under cargo +nightly check); no hooks in /repo',
            'baseline_off_cmd': 'cd /repo && cargo test --workspace --no-fail-fast --offline',
            'source_commits': [],
            'add_only': True,
        },
        'engines': [{
            'name': 'copia-static', 'path': 'engine/',
            'serves_properties': sorted(done),
            'kind_free_text': 'rustc_private fact extractor (driver/) dumping mir_built + expanded-AST format sites of /repo, and a Python rule engine '
                              '(CFG/edge dominance, provenance, call graph, decision-DAG and arithmetic abstract interpreters). Never runs copia.',
        }],
        'checks': checks,
        'not_applicable': na,
        'notes': 'Exit codes of ./check: 0 held (KNOWN-FINDING lines possible), 1 unlisted violation, 2 no verdict (infrastructure / anchor missing). '
                 'Known findings: known_findings.json. Self-validation: selftest/mutate.py (seeded mutants), seeded/ (independent breaking changes).',
    }
    json.dump(m, open(os.path.join(VERIF, 'MANIFEST.json'), 'w'), indent=1)
    print('claimed:', sorted(done), 'not_applicable:', [x['property_id'] for x in na])


if __name__ == '__main__':
    main()
