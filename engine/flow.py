"""Value-flow primitives over one MIR body: def/use index, outcome edges of a call result
(ED guards), and flow-insensitive provenance (PROV) with access paths.

Provenance is the union over *all* definitions of a local (flow-insensitive): an
over-approximation of the values an operand may hold, which is the sound direction for
"derives only from" rules; "derives from X" rules additionally require X to be present.
"""
from collections import defaultdict, namedtuple

from cfg import cfg_of
from facts import callee, norm, op_local

_Origin = namedtuple('Origin', 'kind key path bb')


def _is_mark(e):
    return isinstance(e, str) and e.startswith('@')


def Origin(kind, key, path, bb):
    """(access paths may carry `@Variant` markers while a place is being resolved - "the value seen through a downcast to that
    variant"; finished origins do not show them)"""
    return _Origin(kind, key, tuple(e for e in path if not _is_mark(e)), bb)
# kind: 'param' key=index | 'const' key=value | 'call' key=callee path | 'agg' key=name
#       | 'upvar' key=field index | 'op' key=operator (arithmetic result) | 'unknown'

# Calls that return (a view of) their first argument: followed transparently by PROV.
IDENTITY_CALLS = {
    'std::ops::Deref::deref', 'std::ops::DerefMut::deref_mut', 'std::convert::AsRef::as_ref',
    'std::convert::AsMut::as_mut', 'std::borrow::Borrow::borrow', 'std::convert::Into::into',
    'std::convert::From::from', 'std::clone::Clone::clone', 'std::borrow::ToOwned::to_owned',
    'std::path::Path::to_path_buf', 'std::path::Path::as_os_str', 'std::path::PathBuf::as_path',
    'std::ffi::OsStr::to_owned', 'std::ffi::OsStr::to_os_string', 'std::ops::Try::branch',
    'std::option::Option::<T>::as_ref', 'std::option::Option::<&T>::copied',
    'std::option::Option::<&T>::cloned', 'std::result::Result::<T, E>::as_ref',
    'std::pin::Pin::<Ptr>::new', 'std::pin::Pin::<Ptr>::new_unchecked',
    'std::future::IntoFuture::into_future', 'std::string::String::as_str',
    'std::string::ToString::to_string', 'std::path::Path::new', 'std::ffi::OsString::as_os_str',
    'std::path::PathBuf::into_os_string', 'std::vec::Vec::<T, A>::as_slice',
    'std::option::Option::<T>::as_deref', 'std::convert::identity',
    'std::iter::IntoIterator::into_iter', 'std::option::Option::<T>::take',
    'std::path::Path::as_ref', 'std::ffi::OsStr::new', "std::borrow::Cow::<'_, B>::into_owned",
    'std::result::Result::<T, E>::map_err', 'std::result::Result::<T, E>::ok', 'blake3::Hash::as_bytes', 'hash::StrongHash::as_bytes',
    'std::hint::must_use', 'std::path::Path::to_string_lossy', 'std::ffi::OsStr::to_string_lossy', 'std::ffi::OsStr::as_encoded_bytes', 'std::string::String::as_bytes', 'str::as_bytes',
}
# Combinators: the result derives from every argument (closures contribute their captures).
COMBINATOR_CALLS = {
    'std::option::Option::<T>::map_or_else', 'std::option::Option::<T>::map_or', 'std::option::Option::<T>::map',
    'std::option::Option::<T>::unwrap_or_default', 'std::option::Option::<T>::unwrap_or_else',
    'std::option::Option::<T>::unwrap_or', 'std::option::Option::<T>::or_else', 'std::option::Option::<T>::or',
    'std::option::Option::<T>::and_then', 'std::option::Option::<T>::filter', 'std::option::Option::<T>::ok_or_else',
    'std::option::Option::<T>::ok_or', 'std::result::Result::<T, E>::unwrap_or_default',
    'std::result::Result::<T, E>::unwrap_or_else', 'std::result::Result::<T, E>::unwrap_or',
    'std::result::Result::<T, E>::map', 'std::result::Result::<T, E>::and_then',
    'std::result::Result::<T, E>::or_else',
}
# `Future::poll` returns Poll<Output>: transparent on the future, dropping the Ready payload step.
POLL_CALLS = {'std::future::Future::poll'}


PRED_BOOL = {'std::option::Option::<T>::is_some': ('Some', 'None'), 'std::option::Option::<T>::is_none': ('None', 'Some'),
             'std::result::Result::<T, E>::is_ok': ('Ok', 'Err'), 'std::result::Result::<T, E>::is_err': ('Err', 'Ok')}


def _distinct_defs(ds):
    """number of different definitions: the same statement / call copied into several blocks (jump threading) is one"""
    keys = set()
    for (bb, idx, kind, data, dproj) in ds:
        if kind == 'assign':
            keys.add(('a', repr(data), repr(dproj)))
        else:
            keys.add(('c', repr(data.get('func')), repr(data.get('args')), repr(dproj)))
    return len(keys)


class Flow:
    def __init__(self, body):
        self.body = body
        self.cfg = cfg_of(body)
        self.defs = defaultdict(list)   # local -> [(bb, idx, kind, data, dst_proj)]
        self.uses = defaultdict(list)   # local -> [(bb, idx, role)]
        self._index()

    # ------------------------------------------------------------ indexing
    def _use_op(self, op, bb, idx, role):
        if op['k'] in ('copy', 'move'):
            self.uses[op['p']['l']].append((bb, idx, role))
            for e in op['p']['proj']:
                if isinstance(e, dict) and 'idx' in e:
                    self.uses[e['idx']].append((bb, idx, 'index'))

    def _use_place(self, p, bb, idx, role):
        self.uses[p['l']].append((bb, idx, role))
        for e in p['proj']:
            if isinstance(e, dict) and 'idx' in e:
                self.uses[e['idx']].append((bb, idx, 'index'))

    def _index(self):
        b = self.body
        for bi, blk in enumerate(b.blocks):
            for si, st in enumerate(blk['stmts']):
                rv = st['rv']
                self.defs[st['dst']['l']].append((bi, si, 'assign', rv, st['dst']['proj']))
                if st['dst']['proj']:
                    # writing through a projection also reads the base pointer
                    for e in st['dst']['proj']:
                        if isinstance(e, dict) and 'idx' in e:
                            self.uses[e['idx']].append((bi, si, 'index'))
                k = rv['k']
                if k in ('use', 'cast', 'bin', 'un', 'repeat', 'agg'):
                    for i, o in enumerate(rv['ops']):
                        self._use_op(o, bi, si, 'rv:%s:%d' % (k, i))
                elif k in ('ref', 'rawptr'):
                    self._use_place(rv['p'], bi, si, 'ref_mut' if rv.get('mut') else 'ref')
                elif k == 'discr':
                    self._use_place(rv['p'], bi, si, 'discr')
            t = blk['term']
            tk = t['k']
            if tk == 'call':
                self.defs[t['dst']['l']].append((bi, 'term', 'call', t, t['dst']['proj']))
                self._use_op(t['func'], bi, 'term', 'callee')
                for i, a in enumerate(t['args']):
                    self._use_op(a, bi, 'term', 'arg:%d' % i)
            elif tk == 'switch':
                self._use_op(t['on'], bi, 'term', 'switch')
            elif tk == 'drop':
                self._use_place(t['p'], bi, 'term', 'drop')
            elif tk == 'assert':
                self._use_op(t['cond'], bi, 'term', 'assert')
            elif tk == 'yield':
                self._use_op(t['value'], bi, 'term', 'yield')

    # ------------------------------------------------------------ call sites
    def calls(self, pred=None):
        """[(bb, term)] of call terminators in reachable blocks, optionally filtered on callee path."""
        out = []
        reach = self.cfg.reachable()
        for bi, blk in enumerate(self.body.blocks):
            t = blk['term']
            if t['k'] == 'call' and bi in reach:
                c = callee(t)
                if pred is None or (c is not None and pred(c)):
                    out.append((bi, t))
        return out

    def calls_to(self, *names):
        s = set(names)
        return self.calls(lambda c: c in s)

    def sites_of(self, *names):
        """calls of the named functions AND the places where one of them was spliced in for analysis (inline.py keeps the
        callee, the argument operands and the destination on the goto that replaced the call): [(bb, call-like term)].
        `outcomes(bb)` / `guarded_by(.., bb, ..)` work on both."""
        s = set(names)
        out = list(self.calls(lambda c: c in s))
        for bi in sorted(self.cfg.reachable()):
            t = self.body.blocks[bi]['term']
            if t.get('inlined') in s and isinstance(t.get('inlined_dst'), dict):
                out.append((bi, {'k': 'call', 'spliced': t['inlined'], 'args': t.get('inlined_args', []), 'dst': t['inlined_dst'],
                                 'target': t.get('target'), 'line': t.get('line'), 'col': t.get('col')}))
        return out

    def calls_matching(self, suffixes):
        return self.calls(lambda c: any(c == s or c.endswith(s) for s in suffixes))

    # ------------------------------------------------------------ result usage (ERR)
    def result_discarded(self, bb):
        """The value produced by the call in `bb` is never inspected: its destination local
        is only dropped / storage-dead (the shape of `let _ = f()` and `f();`)."""
        t = self.body.blocks[bb]['term']
        l = t['dst']['l']
        if t['dst']['proj']:
            return False
        if l == 0:
            return False
        for (ubb, uidx, role) in self.uses[l]:
            if role == 'drop':
                continue
            if uidx == 'term':
                t2 = self.body.blocks[ubb]['term']
                if t2['k'] == 'call' and callee(t2) in ('std::mem::drop', 'core::mem::drop'):
                    continue
            return False
        return True

    # ------------------------------------------------------------ outcome edges
    def outcomes(self, bb, local=None):
        """Edges taken per outcome of the value defined by the call in block `bb`
        (or of `local`).  Returns {name: set((s,t,label))}; names are 'Ok','Err','Some',
        'None','true','false', or variant names for crate enums ('Commit', ...)."""
        if local is None:
            t = self.body.blocks[bb]['term']
            local = (t['dst'] if 'dst' in t else t['inlined_dst'])['l']      # (a spliced call keeps its destination: sites_of)
        ty = self.body.local_ty(local)
        res = defaultdict(set)
        seen = set()
        # `direct`: the local still holds nothing but the queried value (it is the queried local, or is defined only by the
        # step that carried the value into it). A local that other definitions reach as well (`x = if c { Ok(v) } else { call()? }`)
        # is tested for ALL of them: edges that jump threading took in place of its switch are credited only to direct locals.
        real_call_ = bb is not None and self.body.blocks[bb]['term'].get('k') == 'call' and 'dst' in self.body.blocks[bb]['term']
        direct_of = {local: (not real_call_) or _distinct_defs(self.defs.get(local, [])) == 1}
        cur_ = [local]
        defs_ = self.defs

        class _Work(list):
            def append(w, item):
                d_ = item[0]
                nd_ = direct_of.get(cur_[0], False) and _distinct_defs(defs_.get(d_, [])) == 1
                direct_of[d_] = nd_ if d_ not in direct_of else (direct_of[d_] and nd_)
                list.append(w, item)
        work = _Work()
        list.append(work, (local, 'val', ty, False))   # (local, mode, type-of-original, negated)
        while work:
            l, mode, ty0, neg = work.pop()
            if (l, mode, neg) in seen:
                continue
            seen.add((l, mode, neg))
            cur_[0] = l
            for (ubb, uidx, role) in self.uses[l]:
                blk = self.body.blocks[ubb]
                if uidx == 'term':
                    t = blk['term']
                    if mode.startswith('wrap:'):
                        continue
                    if t['k'] == 'switch' and role == 'switch' and not t['on']['p']['proj']:
                        self._record_switch(res, ubb, t, mode, ty0, neg, direct=direct_of.get(l, False))
                    elif t['k'] == 'switch' and role == 'switch' and mode == 'val' and self._payload_proj(t['on']['p']['proj']) == 'bool':
                        # `match r { Ok(true) => .., Ok(false) => .. }`: a switch directly on the payload (r as Ok).0
                        self._record_switch(res, ubb, t, 'val', 'bool', neg, direct=direct_of.get(l, False))
                    elif t['k'] == 'call':
                        c = callee(t) or ''
                        if role == 'arg:0' and not t['args'][0]['p']['proj'] and not t['dst']['proj']:
                            if c == 'std::ops::Try::branch':
                                work.append((t['dst']['l'], 'try' if mode == 'val' else mode, ty0, neg))
                            elif c in ('std::result::Result::<T, E>::map_err', 'std::result::Result::<T, E>::map',
                                       'std::option::Option::<T>::map', 'std::convert::identity',
                                       'std::future::IntoFuture::into_future'):
                                work.append((t['dst']['l'], mode, ty0, neg))
                            elif c == 'std::result::Result::<T, E>::ok':
                                work.append((t['dst']['l'], mode, 'resopt:' + ty0, neg))
                            elif c == 'std::option::Option::<T>::ok_or_else' or c == 'std::option::Option::<T>::ok_or':
                                # Some->Ok, None->Err : keep Option naming via a mapping type
                                work.append((t['dst']['l'], mode, 'optres:' + ty0, neg))
                            elif c in ('std::pin::Pin::<Ptr>::new_unchecked', 'std::pin::Pin::<Ptr>::new'):
                                work.append((t['dst']['l'], mode, ty0, neg))
                            elif mode == 'val' and c in PRED_BOOL and ':' not in ty0.split('<')[0].replace('::', ''):
                                # x.is_some() / is_none() / is_ok() / is_err(): the bool's edges are the value's outcomes
                                tn, fn_ = PRED_BOOL[c]
                                work.append((t['dst']['l'], 'val', 'pred|%s|%s' % ((fn_, tn) if neg else (tn, fn_)), False))
                            elif c == 'std::future::Future::poll':
                                work.append((t['dst']['l'], 'poll', ty0, neg))
                    continue
                st = blk['stmts'][uidx]
                rv = st['rv']
                if st['dst']['proj']:
                    continue
                d = st['dst']['l']
                if mode.startswith('wrap:'):
                    # the value travels inside Some(..) / Ok(..): plain moves keep it wrapped, reading the payload unwraps it
                    if rv['k'] == 'use' and rv['ops'][0]['k'] != 'const' and rv['ops'][0]['p']['l'] == l:
                        pr = rv['ops'][0]['p']['proj']
                        if not pr:
                            work.append((d, mode, ty0, neg))
                        elif self._payload_proj(pr) is not None:
                            work.append((d, mode[5:], ty0, neg))
                    continue
                if rv['k'] == 'agg' and rv.get('ak') == 'adt' and rv.get('vname') in ('Some', 'Ok') and len(rv['ops']) == 1 and \
                        rv['ops'][0]['k'] != 'const' and not rv['ops'][0]['p']['proj'] and rv['ops'][0]['p']['l'] == l:
                    work.append((d, 'wrap:' + mode, ty0, neg))
                    continue
                if rv['k'] == 'use' and role.startswith('rv:use') and not rv['ops'][0]['p']['proj']:
                    work.append((d, mode, ty0, neg))
                elif rv['k'] == 'use' and role.startswith('rv:use') and mode == 'val' and self._payload_proj(rv['ops'][0]['p']['proj']) is not None:
                    # `Ok(v)` / `Some(v)` pattern binding: the payload is a new value
                    work.append((d, 'val', self.body.local_ty(d), False))
                elif rv['k'] == 'use' and mode == 'try' and len(rv['ops'][0].get('p', {}).get('proj', [])) == 2 and \
                        isinstance(rv['ops'][0]['p']['proj'][0], dict) and rv['ops'][0]['p']['proj'][0].get('name') == 'Continue':
                    # payload of `x?` : a new value (e.g. the bool of Result<bool>, the Option of Result<Option<T>>)
                    work.append((d, 'val', self.body.local_ty(d), False))
                elif rv['k'] == 'use' and mode == 'poll':
                    # (_p as Ready).0  -> the awaited value
                    pr = rv['ops'][0]['p']['proj']
                    if len(pr) == 2 and isinstance(pr[0], dict) and pr[0].get('name') == 'Ready':
                        work.append((d, 'val', self.body.local_ty(d), neg))
                elif rv['k'] == 'discr' and not rv['p']['proj']:
                    work.append((d, {'val': 'discr', 'try': 'trydiscr', 'poll': 'polldiscr'}.get(mode, mode), ty0, neg))
                elif rv['k'] == 'ref' and not rv['p']['proj']:
                    work.append((d, mode, ty0, neg))
                elif rv['k'] == 'discr' and rv['p']['proj'] == ['deref']:
                    work.append((d, {'val': 'discr', 'try': 'trydiscr'}.get(mode, mode), ty0, neg))
                elif rv['k'] == 'un' and rv['op'] == 'Not':
                    work.append((d, mode, ty0, not neg))
                elif rv['k'] == 'ref' and rv['p']['proj'] == ['deref']:
                    work.append((d, mode, ty0, neg))
        return dict(res)

    @staticmethod
    def _payload_proj(proj):
        """type of the payload for a place projection `(x as Ok|Some).0`, else None"""
        if len(proj) == 2 and isinstance(proj[0], dict) and proj[0].get('name') in ('Ok', 'Some') and isinstance(proj[1], dict) and proj[1].get('f') == 0:
            return proj[1].get('ty') or ''
        return None

    def _record_switch(self, res, bb, t, mode, ty0, neg, direct=False):
        names = self._variant_names(mode, ty0)
        if names is None:
            return
        if neg and ty0.startswith('pred|'):
            names = {0: names[1], 1: names[0]}
        listed = set()
        for v, tgt in t['targets']:
            n = names.get(v)
            listed.add(v)
            if n is not None:
                if neg and n in ('true', 'false'):
                    n = 'false' if n == 'true' else 'true'
                res[n].add((bb, tgt, v))
                for (b0, tg0) in self.cfg.threaded.get((bb, v), []):
                    res[n].add((b0, tg0, None))
                if direct:
                    # edges inline.thread_jumps took in place of this switch edge: they belong to the tested LOCAL (every
                    # assignment of it), not to one value that flows into it among others
                    for (b0, tg0) in self.cfg.threaded_via.get((bb, v), []):
                        res[n].add((b0, tg0, None))
        rest = [n for v, n in names.items() if v not in listed]
        if len(rest) >= 1:
            for n in rest:
                if neg and n in ('true', 'false'):
                    n = 'false' if n == 'true' else 'true'
                res[n].add((bb, t['otherwise'], 'otherwise'))
                for (b0, tg0) in self.cfg.threaded.get((bb, 'otherwise'), []):
                    res[n].add((b0, tg0, None))
                if direct:
                    for (b0, tg0) in self.cfg.threaded_via.get((bb, 'otherwise'), []):
                        res[n].add((b0, tg0, None))

    def _variant_names(self, mode, ty0):
        optres = ty0.startswith('optres:')
        if optres:
            ty0 = ty0[len('optres:'):]
        resopt = ty0.startswith('resopt:')
        if resopt:
            ty0 = ty0[len('resopt:'):]
        if mode == 'val':
            if ty0 == 'bool':
                return {0: 'false', 1: 'true'}
            if ty0.startswith('pred|'):
                _, tn, fn_ = ty0.split('|')
                return {0: fn_, 1: tn}
            return None
        if mode in ('polldiscr', 'poll'):
            return None
        base = 'Result' if ty0.startswith('std::result::Result<') else \
               'Option' if ty0.startswith('std::option::Option<') else None
        if ty0.startswith('std::ops::ControlFlow<'):
            return {0: 'Continue', 1: 'Break'}
        if mode == 'discr':
            if resopt:
                return {0: 'Err', 1: 'Ok'}      # Option discr of r.ok(): None(0)<-Err, Some(1)<-Ok
            if optres:
                return {0: 'Some', 1: 'None'}   # Result discr of ok_or(..): Ok(0)<-Some, Err(1)<-None
            if base == 'Result':
                return {0: 'Ok', 1: 'Err'}
            if base == 'Option':
                return {0: 'None', 1: 'Some'}
            return ENUMS.get(strip_refs(ty0))
        if mode == 'trydiscr':
            if resopt:
                return {0: 'Ok', 1: 'Err'}
            if optres:
                return {0: 'Some', 1: 'None'}
            if base == 'Result':
                return {0: 'Ok', 1: 'Err'}
            if base == 'Option':
                return {0: 'Some', 1: 'None'}
        return None

    def guarded_by(self, target_bb, call_bb, outcome):
        """ED: `target_bb` is reachable only through an `outcome` edge of the call in `call_bb`."""
        oc = self.outcomes(call_bb)
        edges = oc.get(outcome)
        if not edges:
            return False
        return self.cfg.edges_guard(edges, target_bb)

    def guarded_by_local(self, target_bb, local, outcome):
        oc = self.outcomes(None, local)
        edges = oc.get(outcome)
        if not edges:
            return False
        return self.cfg.edges_guard(edges, target_bb)

    # ------------------------------------------------------------ correlated branches
    def _cond_key(self, bb):
        """For a block ending in `switchInt(c)` with `c = CMP(x, y)` computed in the block from plain locals,
        constants or `len()` of a local: (op, keyx, keyy, locals mentioned); else None."""
        b = self.body
        t = b.blocks[bb]['term']
        if t['k'] != 'switch' or t['on']['k'] == 'const' or t['on']['p']['proj']:
            return None
        c = t['on']['p']['l']
        cmp_st = None
        for st in b.blocks[bb]['stmts']:
            if st['dst']['l'] == c and not st['dst']['proj'] and st['rv']['k'] == 'bin' and st['rv']['op'] in ('Lt', 'Le', 'Gt', 'Ge', 'Eq', 'Ne'):
                cmp_st = st
        if cmp_st is None:
            return None

        def opkey(op, depth=0):
            if op['k'] == 'const':
                return ('const', op.get('v')), set()
            if op['p']['proj']:
                return None, set()
            l = op['p']['l']
            if b.local_name(l):
                return ('local', l), {l}
            ds = self.defs.get(l, [])
            if len(ds) != 1 or depth > 4:
                return None, set()
            dbb, idx, kind, data, dproj = ds[0]
            if kind == 'assign' and data['k'] == 'use':
                return opkey(data['ops'][0], depth + 1)
            if kind == 'call' and (callee(data) or '').endswith('::len') and data['args'] and data['args'][0]['k'] != 'const':
                # len(&V)
                a = data['args'][0]
                cur = a['p']['l']
                for _ in range(4):
                    d2 = self.defs.get(cur, [])
                    if len(d2) == 1 and d2[0][2] == 'assign' and d2[0][3]['k'] == 'ref' and not d2[0][3]['p']['proj']:
                        cur = d2[0][3]['p']['l']
                        break
                    break
                if b.local_name(cur):
                    return ('len', cur), {cur}
            return None, set()
        ka, la = opkey(cmp_st['rv']['ops'][0])
        kb, lb = opkey(cmp_st['rv']['ops'][1])
        if ka is None or kb is None:
            return None
        return (cmp_st['rv']['op'], ka, kb), la | lb

    def reach_correlated(self, cut_edges=(), start=0):
        """Blocks reachable from `start` without `cut_edges`, pruning paths that take contradictory outcomes of the
        same comparison (same operator and operands, operands not written in between)."""
        b = self.body
        cfg = self.cfg
        cut3 = {tuple(e) for e in cut_edges if len(e) == 3}
        cut2 = {tuple(e) for e in cut_edges if len(e) == 2}
        keys = {}
        for bb in cfg.reachable():
            k = self._cond_key(bb)
            if k is not None:
                keys[bb] = k
        # locals written per block
        writes = {}
        for bb in range(len(b.blocks)):
            w = set()
            for st in b.blocks[bb]['stmts']:
                w.add(st['dst']['l'])
                if st['rv']['k'] == 'ref' and st['rv'].get('mut'):
                    w.add(st['rv']['p']['l'])
            t = b.blocks[bb]['term']
            if t['k'] == 'call':
                w.add(t['dst']['l'])
            writes[bb] = w
        seen = set()
        out = set()
        stack = [(start, frozenset())]
        while stack:
            bb, facts = stack.pop()
            if (bb, facts) in seen:
                continue
            seen.add((bb, facts))
            out.add(bb)
            # kill facts whose locals are written here
            live = frozenset(f for f in facts if not (f[2] & writes[bb]))
            for t, lab in cfg.succ[bb]:
                if (bb, t) in cut2 or (bb, t, lab) in cut3:
                    continue
                nf = live
                if bb in keys and lab is not None:
                    key, locs = keys[bb]
                    truth = (lab != 0) if lab != 'otherwise' else (0 in [v for v, _ in b.blocks[bb]['term']['targets']])
                    contra = any(f[0] == key and f[1] != truth for f in live)
                    if contra:
                        continue
                    nf = live | {(key, truth, frozenset(locs))}
                stack.append((t, nf))
        return out

    def edges_guard_correlated(self, edges, target):
        if target not in self.cfg.reachable():
            return False
        return target not in self.reach_correlated(cut_edges=list(edges))

    # ------------------------------------------------------------ provenance
    exclude_blocks = frozenset()

    def restricted(self, blocks):
        """context manager: origins() ignores definitions located in `blocks` - the view of the values on the executions that
        cannot have passed through those blocks (e.g. everything guarded by the other edge of a comparison)"""
        fl = self

        class _R:
            def __enter__(self_):
                self_.saved = fl.exclude_blocks
                fl.exclude_blocks = frozenset(blocks) | self_.saved
                return fl

            def __exit__(self_, *a):
                fl.exclude_blocks = self_.saved
                return False
        return _R()

    def _live_blocks(self):
        lb = getattr(self, '_live_cache', None)
        if lb is None:
            lb = self._live_cache = frozenset(self.cfg.reachable())
        return lb

    def const_def_blocks(self, op):
        """[(constant, block)] of the constant assignments that can define the operand (the blocks that origins() does not keep
        for constants): where a bool built by control flow (`a && b`, a fused `all(..)`) gets its true / false"""
        self.const_blocks = []
        try:
            self.origins(op)
            return list(self.const_blocks)
        finally:
            self.const_blocks = None

    def control_tests(self, op, depth=2):
        """switch blocks that decide WHICH constant the operand gets: from one of their successors some, but not all, of the
        operand's constant definitions are reachable (control dependence, approximated by reachability)"""
        defs_ = {bb for _, bb in self.const_def_blocks(op) if bb is not None}
        out = []
        if len(defs_) < 2:
            return out
        for wb in sorted(self.cfg.reachable()):
            t = self.body.blocks[wb]['term']
            if t['k'] != 'switch' or t['on']['k'] == 'const':
                continue
            sets_ = []
            for tb in [tb for _, tb in t['targets']] + [t['otherwise']]:
                if self.body.blocks[tb]['term']['k'] == 'unreachable':
                    continue
                r = self.cfg.reach(tb, cut_blocks=[wb])
                sets_.append(frozenset(defs_ & r))
            if len(set(sets_)) > 1:
                out.append((wb, t))
        return out

    def only_through(self, edges):
        """blocks that can be reached only through one of `edges`"""
        return {bi for bi in self.cfg.reachable() if self.cfg.edges_guard(edges, bi)}

    def origins(self, op, path=(), depth=0, interproc=None, _seen=None, mut_calls=False):
        """Set of Origin for an operand / place dict / local index."""
        if _seen is None:
            _seen = set()
        out = set()
        if isinstance(op, int):
            self._orig_local(op, tuple(path), out, _seen, interproc, depth, mut_calls)
            return out
        if 'k' in op and op['k'] == 'const':
            if 'fn' in op:
                out.add(Origin('const', 'fn:' + norm(op['fn']), tuple(path), None))
            else:
                v = op.get('v', op.get('s', op.get('dbg')))
                if 'bytes' in op:
                    v = bytes(op['bytes'])
                out.add(Origin('const', v, tuple(path), None))
            return out
        p = op['p'] if 'p' in op else op
        self._orig_place(p, tuple(path), out, _seen, interproc, depth, mut_calls)
        return out

    def _orig_place(self, p, path, out, seen, interproc, depth, mut_calls):
        # access path contributed by the projection (outermost last)
        ap = []
        for e in p['proj']:
            if isinstance(e, dict):
                if 'f' in e:
                    ap.append(e['name'] if e['name'] != '' else str(e['f']))
                elif 'idx' in e or 'cidx' in e or 'sub' in e:
                    ap.append('[]')
                elif 'dc' in e and e.get('name'):
                    ap.append('@' + e['name'])
        self._orig_local(p['l'], tuple(ap) + path, out, seen, interproc, depth, mut_calls)

    def _orig_local(self, l, path, out, seen, interproc, depth, mut_calls):
        key = (l, path)
        if key in seen:
            return
        seen.add(key)
        b = self.body
        if 1 <= l <= b.argc:
            # closures/coroutines: _1 is the environment; field k of it is upvar k
            if b.kind in ('closure', 'coroutine') and l == 1:
                path = tuple(e for e in path if not _is_mark(e))
                if path:
                    out.add(Origin('upvar', path[0], path[1:], None))
                else:
                    out.add(Origin('upvar', None, (), None))
            else:
                out.add(Origin('param', l, path, None))
            # params may also be reassigned; fall through to defs
        ds = self.defs.get(l, [])
        if not ds and not (1 <= l <= b.argc):
            out.add(Origin('unknown', l, path, None))
        live_ = self._live_blocks()
        for (bb, idx, kind, data, dproj) in ds:
            if bb in self.exclude_blocks:
                continue        # edge-specialised view (see `restricted`): this definition cannot have run
            if bb not in live_:
                continue        # a block nothing reaches (the arm a folded / threaded test left behind) defines nothing
            # definition through a projection (x.f = v): only relevant if the path starts with f
            dpath = []
            for e in dproj:
                if isinstance(e, dict) and 'f' in e:
                    dpath.append(e['name'] if e['name'] != '' else str(e['f']))
                elif isinstance(e, dict) and ('idx' in e or 'cidx' in e):
                    dpath.append('[]')
            dpath = tuple(dpath)
            sub = path
            if dpath:
                path = tuple(e for e in path if not _is_mark(e))
                sub = path
                if path[:len(dpath)] == dpath:
                    sub = path[len(dpath):]
                elif dpath[:len(path)] == path:
                    sub = ()
                else:
                    continue
            if kind == 'assign':
                self._orig_rv(data, sub, out, seen, interproc, depth, bb, mut_calls)
            else:
                self._orig_call(data, sub, out, seen, interproc, depth, bb, mut_calls)
        # stores through a reference taken in this body (`r = &mut l; (*r).f = v` - what a spliced `&mut self` method leaves)
        # define l.f as well
        for (ubb, uidx, role) in self.uses.get(l, []):
            if role != 'ref_mut' or uidx == 'term':
                continue
            st = b.blocks[ubb]['stmts'][uidx]
            if st['dst']['proj']:
                continue
            bp_ = tuple((e['name'] if e['name'] != '' else str(e['f'])) for e in st['rv'].get('p', {}).get('proj', []) if isinstance(e, dict) and 'f' in e)
            for r in self._ref_copies(st['dst']['l']):
                for (bb, idx, kind, data, dproj) in self.defs.get(r, []):
                    if not dproj or dproj[0] != 'deref' or bb in self.exclude_blocks:
                        continue
                    dpath = bp_ + tuple((e['name'] if e['name'] != '' else str(e['f'])) if 'f' in e else '[]' for e in dproj[1:]
                                        if isinstance(e, dict) and ('f' in e or 'idx' in e or 'cidx' in e))
                    rp_ = tuple(e for e in path if not _is_mark(e))
                    if rp_[:len(dpath)] == dpath:
                        sub = rp_[len(dpath):]
                    elif dpath[:len(rp_)] == rp_:
                        sub = ()
                    else:
                        continue
                    if kind == 'assign':
                        self._orig_rv(data, sub, out, seen, interproc, depth, bb, mut_calls)
                    else:
                        self._orig_call(data, sub, out, seen, interproc, depth, bb, mut_calls)
        if mut_calls:
            # calls that receive `&mut l` may write into it
            for (ubb, uidx, role) in self.uses.get(l, []):
                if role != 'ref_mut':
                    continue
                st = b.blocks[ubb]['stmts'][uidx]
                r = st['dst']['l']
                # `&mut l.out` cannot write `l.path`: a borrow of one field does not touch a sibling field that is read
                bp_ = [(e['name'] if e['name'] != '' else str(e['f'])) for e in st['rv'].get('p', {}).get('proj', []) if isinstance(e, dict) and 'f' in e]
                rp_ = [e for e in path if not _is_mark(e)]
                n_ = min(len(bp_), len(rp_))
                if n_ and bp_[:n_] != rp_[:n_]:
                    continue
                for (cbb, cidx, crole) in self._transitive_uses(r):
                    if cidx == 'term' and crole.startswith('arg:'):
                        t = b.blocks[cbb]['term']
                        c = callee(t) or '?'
                        out.add(Origin('mutcall', c, path, cbb))
                        for i, a in enumerate(t['args']):
                            if 'arg:%d' % i == crole:
                                continue
                            for o in self.origins(a, (), depth, interproc, seen, mut_calls):
                                out.add(o)

    def _ref_copies(self, r, _seen=None):
        """r and the locals that are plain moves / reborrows (`&mut *r`) of it"""
        if _seen is None:
            _seen = set()
        if r in _seen:
            return []
        _seen.add(r)
        out = [r]
        for (bb, idx, role) in self.uses.get(r, []):
            if idx == 'term':
                continue
            st = self.body.blocks[bb]['stmts'][idx]
            rv = st['rv']
            if st['dst']['proj']:
                continue
            if rv['k'] == 'use' and rv['ops'][0]['k'] != 'const' and rv['ops'][0]['p']['l'] == r and not rv['ops'][0]['p']['proj']:
                out += self._ref_copies(st['dst']['l'], _seen)
            elif rv['k'] == 'ref' and rv['p']['l'] == r and rv['p']['proj'] == ['deref']:
                out += self._ref_copies(st['dst']['l'], _seen)
        return out

    def _transitive_uses(self, l, _seen=None):
        """Uses of l and of locals that are plain copies/reborrows of l."""
        if _seen is None:
            _seen = set()
        if l in _seen:
            return []
        _seen.add(l)
        out = []
        for (bb, idx, role) in self.uses.get(l, []):
            out.append((bb, idx, role))
            if idx != 'term':
                st = self.body.blocks[bb]['stmts'][idx]
                if st['rv']['k'] in ('use', 'ref') and not st['dst']['proj']:
                    out.extend(self._transitive_uses(st['dst']['l'], _seen))
        return out

    def _orig_rv(self, rv, path, out, seen, interproc, depth, bb, mut_calls):
        k = rv['k']
        if k in ('use', 'cast'):
            o = rv['ops'][0]
            if o['k'] == 'const' and getattr(self, 'const_blocks', None) is not None:
                self.const_blocks.append((o.get('v', o.get('dbg')), bb))
            for x in self.origins(o, path, depth, interproc, seen, mut_calls):
                out.add(x)
        elif k in ('ref', 'rawptr', 'discr'):
            self._orig_place(rv['p'], path, out, seen, interproc, depth, mut_calls)
        elif k == 'agg':
            ak = rv['ak']
            while path and _is_mark(path[0]):
                if ak == 'adt' and rv.get('vname') and rv['vname'] not in path[0][1:].split('|'):
                    return          # seen through a downcast to another variant: this aggregate is not what is read
                path = path[1:]
            if ak == 'adt' and path:
                fields = rv.get('fields', [])
                names = [f if f != '' else str(i) for i, f in enumerate(fields)]
                if path[0] in names:
                    i = names.index(path[0])
                    if i < len(rv['ops']):
                        for x in self.origins(rv['ops'][i], path[1:], depth, interproc, seen, mut_calls):
                            out.add(x)
                    return
                out.add(Origin('agg', norm(rv['adt']) + '::' + rv['vname'], path, bb))
                return
            if ak in ('tuple', 'closure') and path and path[0].isdigit() and int(path[0]) < len(rv['ops']):
                for x in self.origins(rv['ops'][int(path[0])], path[1:], depth, interproc, seen, mut_calls):
                    out.add(x)
                return
            name = norm(rv.get('adt', rv.get('def', ak)))
            if ak == 'adt':
                name += '::' + rv['vname']
            out.add(Origin('agg', name, path, bb))
            # an aggregate also carries its operands
            for o in rv['ops']:
                for x in self.origins(o, (), depth, interproc, seen, mut_calls):
                    out.add(x)
        elif k in ('bin', 'un'):
            out.add(Origin('op', rv['op'], path, bb))
            for o in rv['ops']:
                for x in self.origins(o, (), depth, interproc, seen, mut_calls):
                    out.add(x)
        elif k == 'repeat':
            for x in self.origins(rv['ops'][0], (), depth, interproc, seen, mut_calls):
                out.add(x)
        else:
            out.add(Origin('unknown', rv.get('dbg', k), path, bb))

    def _orig_call(self, t, path, out, seen, interproc, depth, bb, mut_calls):
        c = callee(t)
        if path and _is_mark(path[0]) and ((c or '').endswith('Try::branch') or 'Try>::branch' in (c or '')):
            # ControlFlow::Continue(v) <- Ok(v) / Some(v);  ControlFlow::Break(r) <- Err / None
            path = ({'@Continue': '@Ok|Some', '@Break': '@Err|None'}.get(path[0], path[0]),) + tuple(path[1:])
        if path and _is_mark(path[0]):
            if (c or '').endswith('from_residual') and path[0] in ('@Ok', '@Some', '@Continue', '@Ok|Some'):
                return      # `?` hands on the residual (Err / None): never the value read through a downcast to the success variant
            if c in IDENTITY_CALLS or c in COMBINATOR_CALLS or c in POLL_CALLS:
                pass        # the marker travels with the value
            else:
                path = tuple(e for e in path if not _is_mark(e))
        if c in IDENTITY_CALLS and t['args']:
            for x in self.origins(t['args'][0], path, depth, interproc, seen, mut_calls):
                out.add(x)
            return
        if c in COMBINATOR_CALLS and t['args']:
            out.add(Origin('comb', c, path, bb))
            if c.endswith('::filter'):
                # the same value or None: the predicate only DECIDES (what it captured is not where the value comes from); the
                # marker stays, so a rule that needs an unconditional copy chain still sees that the value can be dropped
                for x in self.origins(t['args'][0], path, depth, interproc, seen, mut_calls):
                    out.add(x)
                return
            for i, a in enumerate(t['args']):
                for x in self.origins(a, path if i == 0 else (), depth, interproc, seen, mut_calls):
                    out.add(x)
            return
        if c in POLL_CALLS and t['args']:
            p2 = path[1:] if path and path[0] == '0' else path
            for x in self.origins(t['args'][0], p2, depth, interproc, seen, mut_calls):
                out.add(x)
            return
        if c is not None and interproc is not None and depth < 3:
            summ = interproc.return_summary(c, depth + 1)
            if summ is not None:
                for o in summ:
                    if o.kind == 'param':
                        i = o.key - 1
                        if i < len(t['args']):
                            for x in self.origins(t['args'][i], o.path + path, depth, interproc, seen, mut_calls):
                                out.add(x)
                    else:
                        out.add(Origin(o.kind, o.key, o.path + path, bb))
                return
        out.add(Origin('call', c or 'indirect', path, bb))

    # convenience predicates -------------------------------------------------
    def origin_calls(self, op, **kw):
        return {o.key for o in self.origins(op, **kw) if o.kind == 'call'}

    def origin_params(self, op, **kw):
        return {(o.key, o.path) for o in self.origins(op, **kw) if o.kind == 'param'}


def strip_refs(ty):
    while ty.startswith('&'):
        ty = ty[1:]
        if ty.startswith('mut '):
            ty = ty[4:]
        if ty.startswith("'"):
            ty = ty.split(' ', 1)[1] if ' ' in ty else ty
    return ty


# variant tables of crate enums, filled by the loader (type string -> {discr: name}); std enums by hand
ENUMS = {
    "std::path::Component<'_>": {0: 'Prefix', 1: 'RootDir', 2: 'CurDir', 3: 'ParentDir', 4: 'Normal'},
    'std::path::Component': {0: 'Prefix', 1: 'RootDir', 2: 'CurDir', 3: 'ParentDir', 4: 'Normal'},
}


def register_enums(facts):
    for path, a in facts.adts.items():
        if a['kind'] == 'enum':
            ENUMS[path] = {v['discr']: v['name'] for v in a['variants']}


_flow_cache = {}


def flow_of(body):
    k = (body.cfg, body.path)
    f = _flow_cache.get(k)
    if f is None or f.body is not body:
        f = Flow(body)
        _flow_cache[k] = f
    return f


class Interproc:
    """Return-provenance summaries of crate-local functions (for PROV across calls)."""

    def __init__(self, facts, opaque=()):
        self.facts = facts
        self.opaque = set(opaque)
        self._cache = {}
        self._busy = set()

    def return_summary(self, path, depth):
        if path in self.opaque:
            return None
        b = self.facts.bodies.get(path)
        if b is None or b.kind != 'fn':
            return None
        if path in self._cache:
            return self._cache[path]
        if path in self._busy:
            return None
        self._busy.add(path)
        try:
            fl = flow_of(b)
            s = fl.origins(0, (), depth, self)
        finally:
            self._busy.discard(path)
        self._cache[path] = s
        return s
