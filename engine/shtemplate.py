"""Recover the remote shell programs copia sends over ssh as templates with classified holes.

A template is a list of items:  str | ('hole', cls, desc) | ('opt', [items])
hole classes: 'sanitised' (escaped for $'..': backslash first, then quote), 'sanitised-wrong-order',
'int' (integer typed), 'raw' (anything else)."""
from facts import callee, const_val, norm
from flow import flow_of
from terms import term_of, local_term
import shell

FORMAT_CALLS = ('std::fmt::format', 'alloc::fmt::format')
REPLACE = ('core::str::<impl str>::replace', 'alloc::str::<impl str>::replace', 'std::str::<impl str>::replace', 'str::replace')


def is_replace(c):
    return c is not None and c.endswith('str>::replace')


def sanitiser_class(t):
    """term -> 'sanitised' | 'sanitised-wrong-order' | None.   x.replace('\\\\', "\\\\\\\\").replace('\\'', "\\\\'")"""
    def rep(t):
        if t[0] == 'call' and is_replace(t[1]) and len(t[2]) == 3:
            frm, to = t[2][1], t[2][2]
            if frm[0] == 'const' and to[0] == 'const':
                return (t[2][0], frm[1], to[1])
        return None
    outer = rep(t)
    if not outer:
        return None
    inner = rep(outer[0])
    if not inner:
        return None
    bs = (ord('\\'), '\\\\')
    qt = (ord("'"), "\\'")
    o = (outer[1], outer[2])
    i = (inner[1], inner[2])
    if i == bs and o == qt:
        return 'sanitised'
    if i == qt and o == bs:
        return 'sanitised-wrong-order'
    return None


def ast_sanitiser_class(a):
    """same on an argument expression of the expanded AST (inline `{}` arguments)."""
    def rep(a):
        if a.get('k') == 'mcall' and a['method'] == 'replace' and len(a['args']) == 2:
            return (a['recv'], a['args'][0].get('sym'), a['args'][1].get('sym'))
        return None
    outer = rep(a)
    if not outer:
        return None
    inner = rep(outer[0])
    if not inner:
        return None
    bs = ('\\\\', '\\\\\\\\')
    qt = ("\\'", "\\\\'")
    o, i = (outer[1], outer[2]), (inner[1], inner[2])
    if i == bs and o == qt:
        return 'sanitised'
    if i == qt and o == bs:
        return 'sanitised-wrong-order'
    return None


class Templates:
    def __init__(self, F):
        self.F = F
        self.by_loc = {}
        for f in F.formats:
            self.by_loc[(f['file'], f['line'], f['col'])] = f

    def site_of_call(self, body, bb):
        t = body.blocks[bb]['term']
        return self.by_loc.get((body.file, t['line'], t['col']))

    def local_by_name(self, body, name):
        ls = body.locals_named(name)
        return ls[0] if ls else None

    def template_of_operand(self, body, op, depth=0):
        """items for a string-valued operand"""
        v = const_val(op)
        if isinstance(v, str):
            return [v]
        if op['k'] == 'const':
            return [('hole', 'raw', 'const?')]
        fl = flow_of(body)
        return self.template_of_term(body, term_of(fl, op), depth, desc=str(op['p']['l']))

    def template_of_term(self, body, t, depth, desc=''):
        if depth > 6:
            return [('hole', 'raw', 'deep')]
        if t[0] == 'const' and isinstance(t[1], str):
            return [t[1]]
        if t[0] == 'call' and t[1] in FORMAT_CALLS:
            site = self.site_of_call(body, t[3])
            if site is not None:
                return self.template_of_site(body, site, depth + 1)
        if t[0] == 'call' and t[1] in ('std::string::String::new',):
            return ['']
        if t[0] == 'call' and t[1] in ('std::option::Option::<T>::map_or', 'std::option::Option::<T>::map_or_else') and len(t[2]) == 3:
            # `opt.map_or(String::new(), |t| format!(..))` : optional sub-template
            default = self.template_of_term(body, t[2][1], depth + 1)
            clo = t[2][2]
            if clo[0] == 'agg' and clo[1] == 'closure':
                pass
            sub = None
            # find the closure body created in this body whose creation feeds this call
            fl = flow_of(body)
            call_t = body.blocks[t[3]]['term']
            for o in fl.origins(call_t['args'][2]):
                if o.kind == 'agg' and self.F.body(o.key) is not None:
                    cb = self.F.body(o.key)
                    cfl = flow_of(cb)
                    for fb, ft in cfl.calls(lambda c: c in FORMAT_CALLS):
                        site = self.site_of_call(cb, fb)
                        if site is not None:
                            sub = self.template_of_site(cb, site, depth + 1)
            if sub is not None and default == ['']:
                return [('opt', sub)]
        if t[0] == 'call' and t[1].split('::')[-1] in ('unwrap_or_default', 'unwrap_or', 'unwrap_or_else') and t[2] and \
                t[2][0][0] == 'call' and t[2][0][1] == 'std::option::Option::<T>::map':
            # `opt.map(|t| format!(..)).unwrap_or_default()` : the same optional sub-template, default "" only
            inner = t[2][0]
            default_ok = t[1].endswith('unwrap_or_default') or (len(t[2]) > 1 and self.template_of_term(body, t[2][1], depth + 1) == [''])
            fl = flow_of(body)
            call_t = body.blocks[inner[3]]['term']
            sub = None
            for o in fl.origins(call_t['args'][1]):
                if o.kind == 'agg' and self.F.body(o.key) is not None:
                    cb = self.F.body(o.key)
                    cfl = flow_of(cb)
                    for fb, ft in cfl.calls(lambda c: c in FORMAT_CALLS):
                        site = self.site_of_call(cb, fb)
                        if site is not None:
                            sub = self.template_of_site(cb, site, depth + 1)
            if sub is not None and default_ok:
                return [('opt', sub)]
        cls = sanitiser_class(t)
        if cls:
            return [('hole', cls, desc)]
        return [('hole', 'raw', desc)]

    def const_str(self, body, name):
        """value of a `const NAME: &str` item visible from `body` (same module first), else None"""
        mod = body.path.split('::')[0]
        cands = [v for k, v in self.F.consts.items() if k.split('::')[-1] == name and isinstance(v.get('val'), str) and v.get('ty', '').endswith('str')]
        same = [v for k, v in self.F.consts.items() if k == '%s::%s' % (mod, name) and isinstance(v.get('val'), str) and v.get('ty', '').endswith('str')]
        pick = same or (cands if len(cands) == 1 else [])
        if pick and pick[0]['val'] != 'None':
            return pick[0]['val']
        return None

    def template_of_site(self, body, site, depth):
        items = []
        for p in site['pieces']:
            if isinstance(p, str):
                items.append(p)
                continue
            a = site['args'][p['arg']] if 0 <= p['arg'] < len(site['args']) else {'k': 'other', 'src': '?'}
            items.extend(self.hole_items(body, a, depth))
        return items

    def hole_items(self, body, a, depth):
        k = a.get('k')
        if k == 'var':
            name = a['name']
            l = self.local_by_name(body, name)
            fl = flow_of(body)
            if l is None:
                cs = self.const_str(body, name)
                if cs is not None:
                    return [cs]          # a named string constant is a literal piece of the template
                # captured variable of a closure: resolve in the parent
                for idx, n in body.upvars.items():
                    if n == name and body.parent:
                        pb = self.F.body(body.parent)
                        if pb is not None:
                            return self.hole_items(pb, a, depth + 1)
                return [('hole', 'raw', name)]
            ty = body.local_ty(l).replace('&', '').strip()
            if ty in ('i64', 'u64', 'i32', 'u32', 'usize', 'isize', 'u16', 'i16', 'u8', 'i8'):
                return [('hole', 'int', name)]
            t = local_term(fl, l, 0)
            if t[0] == 'param' and body.kind in ('closure', 'coroutine'):
                pass
            sub = self.template_of_term(body, t, depth + 1, desc=name)
            return sub
        cls = ast_sanitiser_class(a)
        if cls:
            return [('hole', cls, a.get('src', '?')[:40])]
        if k == 'lit':
            return [a.get('sym', '')]
        return [('hole', 'raw', a.get('src', a.get('name', '?'))[:40])]


def flatten(items, with_opt=True):
    """-> pieces for shell.tokenize: str | ('hole', i) ; and the hole list"""
    pieces, holes = [], []

    def rec(its):
        for it in its:
            if isinstance(it, str):
                pieces.append(it)
            elif it[0] == 'hole':
                holes.append(it)
                pieces.append(('hole', len(holes) - 1))
            elif it[0] == 'opt':
                if with_opt:
                    rec(it[1])
    rec(items)
    return pieces, holes


def render(items):
    out = ''
    for it in items:
        if isinstance(it, str):
            out += it
        elif it[0] == 'hole':
            out += '{%s:%s}' % (it[1], it[2])
        else:
            out += '[' + render(it[1]) + ']'
    return out


def ssh_commands(F, body, tpl=None):
    """[(Cmd, items)] for every `ssh` spawn in `body`: the remote command template."""
    tpl = tpl or Templates(F)
    out = []
    for cmd in shell.commands(body):
        if cmd.program_const() != 'ssh':
            continue
        rem = []
        for (ab, aop) in cmd.args[1:]:
            if rem:
                rem.append(' ')
            rem.extend(tpl.template_of_operand(body, aop))
        out.append((cmd, rem))
    return out
