"""AR — modular-arithmetic abstract interpretation of checksum.rs (DESIGN §4 AR, Appendix D).

Every integer value is an exact polynomial over symbols (valid as long as no operation wraps); every
operation contributes an obligation that its exact result fits its machine type (so debug builds cannot
panic and release builds cannot wrap) and that subtractions stay non-negative.  `x % M` introduces a fresh
symbol in [0, M-1] with a recorded congruence.  Ranges of polynomials are bounded by vertex enumeration
over the symbol box (exact for multilinear polynomials, interval arithmetic otherwise).  No solver, no
execution of the analysed code."""
import itertools

from cfg import cfg_of
from facts import callee, norm


class Unsupported(Exception):
    """construct outside the modelled set -> no verdict for this method"""


# ---------------------------------------------------------------- polynomials
class Poly:
    __slots__ = ('t',)

    def __init__(self, t=None):
        self.t = {k: v for k, v in (t or {}).items() if v != 0}

    @staticmethod
    def const(c):
        return Poly({(): int(c)})

    @staticmethod
    def sym(name):
        return Poly({((name, 1),): 1})

    def __add__(self, o):
        t = dict(self.t)
        for k, v in o.t.items():
            t[k] = t.get(k, 0) + v
        return Poly(t)

    def __sub__(self, o):
        t = dict(self.t)
        for k, v in o.t.items():
            t[k] = t.get(k, 0) - v
        return Poly(t)

    def __mul__(self, o):
        t = {}
        for k1, v1 in self.t.items():
            for k2, v2 in o.t.items():
                d = dict(k1)
                for s, p in k2:
                    d[s] = d.get(s, 0) + p
                k = tuple(sorted(d.items()))
                t[k] = t.get(k, 0) + v1 * v2
        return Poly(t)

    def scale(self, c):
        return Poly({k: v * c for k, v in self.t.items()})

    def is_const(self):
        return all(k == () for k in self.t)

    def const_value(self):
        return self.t.get((), 0)

    def syms(self):
        return sorted({s for k in self.t for s, p in k})

    def multilinear(self):
        return all(p == 1 for k in self.t for s, p in k)

    def eval(self, asg):
        tot = 0
        for k, v in self.t.items():
            m = v
            for s, p in k:
                m *= asg[s] ** p
            tot += m
        return tot

    def subst(self, name, poly):
        out = Poly()
        for k, v in self.t.items():
            term = Poly.const(v)
            for s, p in k:
                f = poly if s == name else Poly.sym(s)
                for _ in range(p):
                    term = term * f
            out = out + term
        return out

    def mod(self, m):
        return Poly({k: v % m for k, v in self.t.items()})

    def key(self):
        return tuple(sorted(self.t.items()))

    def __eq__(self, o):
        return isinstance(o, Poly) and self.t == o.t

    def __hash__(self):
        return hash(self.key())

    def __repr__(self):
        if not self.t:
            return '0'
        parts = []
        for k, v in sorted(self.t.items()):
            mono = '*'.join(s if p == 1 else '%s^%d' % (s, p) for s, p in k)
            parts.append(('%d' % v) if not mono else (mono if v == 1 else '%d*%s' % (v, mono)))
        return ' + '.join(parts)


class Box:
    """symbol -> (lo, hi)"""

    def __init__(self, d=None, decomp=None, nonneg=None):
        self.d = dict(d or {})
        self.decomp = dict(decomp or {})     # (poly key, k) -> (hi symbol, lo symbol): x = hi * 2^k + lo
        self.nonneg = list(nonneg or [])     # polynomials known to be >= 0 on this path (branch conditions)

    def copy(self):
        return Box(self.d, self.decomp, self.nonneg)

    def bounds(self, p):
        lo, hi = self._bounds(p)
        # branch conditions q >= 0 of this path:  p = q + (p - q) >= min(p - q),  p = (p + q) - q <= max(p + q); also for a
        # sum of two conditions (a value reduced twice in a row)
        qs = list(self.nonneg)[-6:]
        combos = [q for q in qs] + [qs[i] + qs[j] for i in range(len(qs)) for j in range(i + 1, len(qs))]
        for q in combos:
            try:
                lo = max(lo, self._bounds(p - q)[0])
                hi = min(hi, self._bounds(p + q)[1])
            except Unsupported:
                continue
        return lo, hi

    def _bounds(self, p):
        ss = p.syms()
        for s in ss:
            if s not in self.d:
                raise Unsupported('unbounded symbol %s' % s)
        if p.multilinear() and len(ss) <= 14:
            lo = hi = None
            for combo in itertools.product(*[(self.d[s][0], self.d[s][1]) if self.d[s][0] != self.d[s][1] else (self.d[s][0],) for s in ss]):
                v = p.eval(dict(zip(ss, combo)))
                lo = v if lo is None or v < lo else lo
                hi = v if hi is None or v > hi else hi
            if lo is None:
                lo = hi = p.const_value()
            return lo, hi
        lo = hi = 0
        for k, v in p.t.items():
            mlo = mhi = 1
            for s, pw in k:
                a, b = self.d[s]
                cands = [a ** pw, b ** pw]
                if a < 0 < b and pw % 2 == 0:
                    cands.append(0)
                slo, shi = min(cands), max(cands)
                c = [mlo * slo, mlo * shi, mhi * slo, mhi * shi]
                mlo, mhi = min(c), max(c)
            c = [v * mlo, v * mhi]
            lo += min(c)
            hi += max(c)
        return lo, hi


BITS = {'u8': 8, 'u16': 16, 'u32': 32, 'u64': 64, 'usize': 64, 'u128': 128}


class Ob:
    def __init__(self, ok, kind, what, line, detail):
        self.ok, self.kind, self.what, self.line, self.detail = ok, kind, what, line, detail

    def key(self):
        return '%s:%s' % (self.kind, self.what)


class Machine:
    """Abstract interpreter for one method body."""

    def __init__(self, F, body, M, box, nmax):
        self.F, self.b, self.M, self.nmax = F, body, M, nmax
        self.cfg = cfg_of(body)
        self.box = box
        self.cong = {}         # residue symbol -> defining polynomial
        self.obs = []
        self.fresh_n = 0
        self.check = True
        self.ssyms = {}        # S-symbol name -> canonical term poly
        self.returns = []      # (env, box) at return
        self.carried_override = None
        self.decomp = {}
        self.or_parts = None
        self.depth = 0

    # ---- helpers
    def fresh(self, base, lo, hi):
        self.fresh_n += 1
        n = '%s#%d' % (base, self.fresh_n)
        self.box.d[n] = (lo, hi)
        return n

    def ob(self, ok, kind, what, line, detail):
        if self.check:
            self.obs.append(Ob(ok, kind, what, line, detail))

    def fits(self, p, ty, kind, what, line, box=None):
        box = box or self.box
        bits = BITS.get(ty)
        if bits is None:
            raise Unsupported('type %s' % ty)
        lo, hi = box.bounds(p)
        ok = lo >= 0 and hi <= (1 << bits) - 1
        self.ob(ok, kind, what, line, 'range [%d, %d] in %s (max %d); value = %s' % (lo, hi, ty, (1 << bits) - 1, p))
        return ok

    def residue(self, p):
        """canonical residue polynomial mod M (fresh residue symbols replaced by what they are congruent to)"""
        changed = True
        guard = 0
        while changed and guard < 50:
            changed = False
            guard += 1
            for s in p.syms():
                if s in self.cong:
                    p = p.subst(s, self.cong[s])
                    changed = True
        return p.mod(self.M)

    # ---- values: ('p', Poly, ty) | ('ovf', Poly, ty) | ('cmp', op, Poly, Poly) | ('bool', b) | ('obj', dict) | ('slice', name)
    #              ('iter', slice, enumerated) | ('item', idx Poly|None, byte Poly) | ('none',) | ('tuple', [..]) | ('ref', val) | ('unit',)
    def read(self, env, p, line):
        if p['l'] not in env:
            raise Unsupported('read of unset _%d' % p['l'])
        v = env[p['l']]
        for e in p['proj']:
            if e == 'deref':
                if v[0] == 'ref':
                    v = v[1]
                continue
            if isinstance(e, dict) and 'f' in e:
                name = e['name'] if e['name'] != '' else str(e['f'])
                if v[0] == 'obj':
                    if name not in v[1]:
                        raise Unsupported('field %s' % name)
                    v = v[1][name]
                elif v[0] == 'ovf':
                    v = ('p', v[1], v[2]) if name == '0' else ('bool', False)
                elif v[0] == 'tuple':
                    v = v[1][int(name)]
                elif v[0] == 'item_payload':
                    v = v[1][int(name)]
                else:
                    raise Unsupported('field %s of %s' % (name, v[0]))
            elif isinstance(e, dict) and 'dc' in e:
                if v[0] == 'item':
                    # (x as Some).0 -> (i, &byte) or &byte
                    if v[1] is not None:
                        v = ('item_payload', [('tuple', [('p', v[1], 'usize'), ('ref', ('p', v[2], 'u8'))])])
                    else:
                        v = ('item_payload', [('ref', ('p', v[2], 'u8'))])
                else:
                    raise Unsupported('downcast of %s' % v[0])
            else:
                raise Unsupported('projection %r' % (e,))
        return v

    def operand(self, env, op, line):
        if op['k'] == 'const':
            if 'v' in op:
                ty = op['ty']
                if ty == 'bool':
                    return ('bool', bool(op['v']))
                return ('p', Poly.const(op['v']), ty)
            if 'fn' in op:
                return ('fn', norm(op['fn']))
            return ('unit',)
        return self.read(env, op['p'], line)

    def write(self, env, place, val):
        env = dict(env)
        if not hasattr(self, 'alias'):
            self.alias = {}
        if not place['proj']:
            # a reference to an object some other local already refers to (reborrow `&mut *self` handed to a spliced helper):
            # remember that both name the same object, so that a field write through one is seen through the other
            if val and val[0] == 'ref' and val[1] and val[1][0] == 'obj':
                for y, vy in env.items():
                    if y != place['l'] and vy and vy[0] == 'ref' and vy[1] is val[1]:
                        self.alias[place['l']] = self.alias.get(y, y)
                        break
            env[place['l']] = val
            return env
        # (*_1).field = val
        base = env.get(place['l'])
        pr = [e for e in place['proj'] if e != 'deref']
        if base is None or len(pr) != 1 or 'f' not in pr[0]:
            raise Unsupported('write through %r' % (place['proj'],))
        wrapped = base[0] == 'ref'
        obj = base[1] if wrapped else base
        if obj[0] != 'obj':
            raise Unsupported('field write into %s' % obj[0])
        d = dict(obj[1])
        d[pr[0]['name']] = val
        newobj = ('obj', d)
        env[place['l']] = ('ref', newobj) if wrapped else newobj
        if wrapped:
            root = self.alias.get(place['l'], place['l'])
            for y in list(env.keys()):
                if y != place['l'] and (y == root or self.alias.get(y) == root) and env[y] and env[y][0] == 'ref':
                    env[y] = ('ref', newobj)
        return env

    def arith(self, op, a, b, ty, line, checked):
        pa, pb = a[1], b[1]
        base = op.replace('WithOverflow', '').replace('Unchecked', '')
        if base == 'Add':
            r = pa + pb
        elif base == 'Sub':
            r = pa - pb
        elif base == 'Mul':
            r = pa * pb
        else:
            raise Unsupported('op %s' % op)
        what = '%s@L%d' % (base, line)
        self.fits(r, ty, 'wrap-free', what, line)
        return r

    def rvalue(self, env, rv, line):
        k = rv['k']
        if k == 'use':
            return self.operand(env, rv['ops'][0], line)
        if k == 'ref':
            return ('ref', self.read(env, rv['p'], line))
        if k == 'cast':
            v = self.operand(env, rv['ops'][0], line)
            if v[0] != 'p':
                raise Unsupported('cast of %s' % v[0])
            ty = rv['ty']
            if ty not in BITS:
                raise Unsupported('cast to %s' % ty)
            if BITS[ty] < BITS.get(v[2], 64):
                self.fits(v[1], ty, 'narrowing-cast', 'as %s@L%d' % (ty, line), line)
            return ('p', v[1], ty)
        if k == 'bin':
            a = self.operand(env, rv['ops'][0], line)
            b = self.operand(env, rv['ops'][1], line)
            op = rv['op']
            if a[0] != 'p' or b[0] != 'p':
                raise Unsupported('binary op on %s,%s' % (a[0], b[0]))
            if op in ('AddWithOverflow', 'SubWithOverflow', 'MulWithOverflow'):
                return ('ovf', self.arith(op, a, b, a[2], line, True), a[2])
            if op in ('Add', 'Sub', 'Mul', 'AddUnchecked', 'SubUnchecked', 'MulUnchecked'):
                return ('p', self.arith(op, a, b, a[2], line, False), a[2])
            if op in ('Lt', 'Le', 'Gt', 'Ge', 'Eq', 'Ne'):
                return ('cmp', op, a[1], b[1])
            if op == 'Rem':
                if not b[1].is_const() or b[1].const_value() <= 0:
                    raise Unsupported('Rem by non-constant')
                m = b[1].const_value()
                lo, hi = self.box.bounds(a[1])
                if lo >= 0 and hi < m:
                    return ('p', a[1], a[2])
                if m != self.M:
                    raise Unsupported('Rem by %d (modulus is %d)' % (m, self.M))
                r = self.fresh('r', 0, m - 1)
                self.cong[r] = a[1]
                self.ob(lo >= 0, 'non-negative', 'Rem operand@L%d' % line, line, 'range [%d, %d]' % (lo, hi))
                return ('p', Poly.sym(r), a[2])
            if op in ('Shl', 'ShlUnchecked'):
                if not b[1].is_const():
                    raise Unsupported('Shl by non-constant')
                r = a[1].scale(1 << b[1].const_value())
                self.fits(r, a[2], 'shift-keeps-bits', 'Shl@L%d' % line, line)
                return ('p', r, a[2])
            if op in ('Shr', 'ShrUnchecked', 'BitAnd'):
                if not b[1].is_const():
                    raise Unsupported('%s by non-constant' % op)
                c = b[1].const_value()
                if op == 'BitAnd':
                    k = c.bit_length()
                    if c != (1 << k) - 1:
                        raise Unsupported('BitAnd with a mask that is not 2^k-1')
                else:
                    k = c
                lo, hi = self.box.bounds(a[1])
                self.ob(lo >= 0, 'non-negative', '%s operand@L%d' % (op, line), line, 'range [%d, %d]' % (lo, hi))
                key = (a[1].key(), k)
                if key not in self.box.decomp:
                    # x = h * 2^k + l  with l in [0, 2^k-1], h in [lo>>k, hi>>k]
                    hs = self.fresh('hi', max(lo, 0) >> k, max(hi, 0) >> k)
                    ls = self.fresh('lo', 0, min((1 << k) - 1, max(hi, 0)))
                    self.cong[ls] = a[1] - Poly.sym(hs).scale(1 << k)      # exact identity, used for residues
                    self.box.decomp[key] = (hs, ls)
                hs, ls = self.box.decomp[key]
                return ('p', Poly.sym(ls if op == 'BitAnd' else hs), a[2])
            if op == 'BitOr':
                # disjoint bit ranges -> addition
                lo_b, hi_b = self.box.bounds(b[1])
                # a must be a multiple of 2^k with 2^k > hi_b
                kk = 0
                while (1 << kk) <= hi_b:
                    kk += 1
                coeffs_ok = all(v % (1 << kk) == 0 for v in a[1].t.values())
                if not coeffs_ok:
                    lo_a, hi_a = self.box.bounds(a[1])
                    k2 = 0
                    while (1 << k2) <= hi_a:
                        k2 += 1
                    coeffs_ok = all(v % (1 << k2) == 0 for v in b[1].t.values())
                self.ob(coeffs_ok, 'disjoint-or', 'BitOr@L%d' % line, line, '%s | %s' % (a[1], b[1]))
                self.or_parts = (a[1], b[1])
                return ('p', a[1] + b[1], a[2])
            raise Unsupported('op %s' % op)
        if k == 'agg':
            ops = [self.operand(env, o, line) for o in rv['ops']]
            if rv['ak'] == 'tuple':
                return ('tuple', ops)
            if rv['ak'] == 'adt':
                return ('obj', dict(zip(rv['fields'], ops)))
            if rv['ak'] == 'closure':
                return ('tuple', ops)       # a closure value is the tuple of what it captured (its body was spliced where it ran)
            raise Unsupported('aggregate %s' % rv['ak'])
        if k == 'discr':
            v = self.read(env, rv['p'], line)
            if v[0] == 'item':
                return ('discr', 1)
            if v[0] == 'none':
                return ('discr', 0)
            raise Unsupported('discriminant of %s' % v[0])
        if k == 'un' and rv['op'] == 'Not':
            v = self.operand(env, rv['ops'][0], line)
            if v[0] == 'bool':
                return ('bool', not v[1])
            if v[0] == 'cmp':
                neg = {'Lt': 'Ge', 'Le': 'Gt', 'Gt': 'Le', 'Ge': 'Lt', 'Eq': 'Ne', 'Ne': 'Eq'}
                return ('cmp', neg[v[1]], v[2], v[3])
        raise Unsupported('rvalue %s' % k)

    def decide(self, c, box):
        """-> True / False / None for a ('cmp', op, pa, pb) under `box`"""
        op, pa, pb = c[1], c[2], c[3]
        lo, hi = box.bounds(pa - pb)
        if op == 'Lt':
            return True if hi < 0 else False if lo >= 0 else None
        if op == 'Le':
            return True if hi <= 0 else False if lo > 0 else None
        if op == 'Gt':
            return True if lo > 0 else False if hi <= 0 else None
        if op == 'Ge':
            return True if lo >= 0 else False if hi < 0 else None
        if op == 'Eq':
            return True if lo == hi == 0 else False if (hi < 0 or lo > 0) else None
        if op == 'Ne':
            return False if lo == hi == 0 else True if (hi < 0 or lo > 0) else None
        return None

    def refine(self, c, truth, box):
        """narrow the box for single-symbol linear conditions"""
        op, pa, pb = c[1], c[2], c[3]
        if not truth:
            op = {'Lt': 'Ge', 'Le': 'Gt', 'Gt': 'Le', 'Ge': 'Lt', 'Eq': 'Ne', 'Ne': 'Eq'}[op]
        d = pa - pb
        ss = d.syms()
        b2 = box.copy()
        one = Poly.const(1)
        b2.nonneg.append({'Ge': d, 'Gt': d - one, 'Le': pb - pa, 'Lt': pb - pa - one}.get(op, Poly.const(0)))
        if len(ss) == 1 and d.multilinear():
            s = ss[0]
            co = d.t.get(((s, 1),), 0)
            c0 = d.const_value()
            lo, hi = b2.d[s]
            if co == 1:
                # s + c0 OP 0
                if op == 'Ge':
                    lo = max(lo, -c0)
                elif op == 'Gt':
                    lo = max(lo, -c0 + 1)
                elif op == 'Le':
                    hi = min(hi, -c0)
                elif op == 'Lt':
                    hi = min(hi, -c0 - 1)
                elif op == 'Eq':
                    lo = max(lo, -c0)
                    hi = min(hi, -c0)
                if lo > hi:
                    return None
                b2.d[s] = (lo, hi)
        return b2

    def call(self, env, t, line):
        c = callee(t) or 'indirect'
        args = [self.operand(env, a, line) for a in t['args']]
        last = c.split('::')[-1]
        if c in ('std::convert::From::from', 'std::convert::Into::into'):
            a = args[0]
            if a[0] != 'p':
                raise Unsupported('From of %s' % a[0])
            dty = self.b.local_ty(t['dst']['l'])
            return ('p', a[1], dty)
        if last in ('wrapping_add', 'wrapping_sub', 'wrapping_mul') and c.startswith('core::num::'):
            a, b = args
            ty = a[2]
            r = a[1] + b[1] if last == 'wrapping_add' else a[1] - b[1] if last == 'wrapping_sub' else a[1] * b[1]
            self.fits(r, ty, 'wrapping-op-must-not-wrap', '%s@L%d' % (last, line), line)
            return ('p', r, ty)
        if last in ('saturating_add', 'checked_add') and c.startswith('core::num::'):
            raise Unsupported(c)
        if c == 'core::slice::<impl [T]>::len':
            return ('p', Poly.sym('n'), 'usize')
        if c == 'core::slice::<impl [T]>::iter':
            return ('iter', 'data', False)
        if c == 'std::iter::Iterator::enumerate':
            return ('iter', 'data', True)
        if c == 'std::iter::IntoIterator::into_iter':
            return args[0]
        if c == 'std::iter::Iterator::next':
            return ('next',)
        if c == 'std::fmt::Arguments::<\'a>::from_str' or c.startswith('core::panicking::'):
            return ('panic',)
        raise Unsupported('call %s' % c)

    # ---- execution
    def run(self, env):
        self._exec(0, env, self.box, set(), 0)

    def _exec(self, bb, env, box, onpath, depth):
        b = self.b
        saved_box = self.box
        self.box = box
        try:
            while True:
                if depth > 400:
                    raise Unsupported('execution too deep')
                depth += 1
                # loop head?
                if self._is_loop_head(bb) and bb not in onpath:
                    bb, env = self._loop(bb, env)
                    continue
                blk = b.blocks[bb]
                for st in blk['stmts']:
                    val = self.rvalue(env, st['rv'], st['line'])
                    # weight idiom: len - i with i the enumerate index of the slice whose len is `n`
                    env = self.write(env, st['dst'], val)
                t = blk['term']
                k = t['k']
                line = t['line']
                if k == 'goto':
                    bb = t['target']
                elif k == 'drop':
                    bb = t['target']
                elif k == 'return':
                    if self.or_parts is not None:
                        env = dict(env)
                        env[-1] = ('or', self.or_parts)
                    self.returns.append((env, self.box))
                    return
                elif k == 'unreachable':
                    return
                elif k == 'assert':
                    c = self.operand(env, t['cond'], line)
                    # Overflow asserts were already turned into wrap-free obligations at the operation
                    if c[0] == 'cmp':
                        d = self.decide(c, self.box)
                        want = t['expected']
                        ok = (d is want)
                        self.ob(ok, 'assert', '%s@L%d' % (t['msg'].split(' ')[0].split('(')[0], line), line, 'cannot fail' if ok else 'may fail')
                    bb = t['target']
                elif k == 'call' and (callee(t) or '') in self.F.bodies and self.F.bodies[callee(t)].file.endswith('checksum.rs'):
                    if self.depth > 3:
                        raise Unsupported('call depth')
                    cb = self.F.bodies[callee(t)]
                    sub = Machine(self.F, cb, self.M, self.box, self.nmax)
                    sub.cong, sub.obs, sub.ssyms = self.cong, self.obs, self.ssyms
                    sub.fresh_n = self.fresh_n + 1000 * (self.depth + 1) + 37 * bb
                    sub.check = self.check
                    sub.depth = self.depth + 1
                    args = [self.operand(env, a, line) for a in t['args']]
                    sub.run({i + 1: a for i, a in enumerate(args)})
                    self.fresh_n = max(self.fresh_n, sub.fresh_n)
                    if t['target'] is None:
                        return
                    for renv, rbox in sub.returns:
                        if 0 not in renv:
                            continue
                        self._exec(t['target'], self.write(env, t['dst'], renv[0]), rbox, onpath, depth)
                    return
                elif k == 'call':
                    v = self.call(env, t, line)
                    if v[0] == 'panic':
                        if t['target'] is None:
                            self.ob(False, 'panic-reachable', 'panic@L%d' % line, line, 'a panic call is reachable')
                            return
                        env = self.write(env, t['dst'], ('unit',))
                        bb = t['target']
                        continue
                    if v[0] == 'next':
                        raise Unsupported('Iterator::next outside a recognised loop')
                    env = self.write(env, t['dst'], v)
                    if t['target'] is None:
                        return
                    bb = t['target']
                elif k == 'switch':
                    v = self.operand(env, t['on'], line)
                    if v[0] == 'bool':
                        bb = self._target(t, 1 if v[1] else 0)
                    elif v[0] == 'discr':
                        bb = self._target(t, v[1])
                    elif v[0] == 'cmp':
                        d = self.decide(v, self.box)
                        if d is not None:
                            bb = self._target(t, 1 if d else 0)
                        else:
                            for truth in (True, False):
                                b2 = self.refine(v, truth, self.box)
                                if b2 is None:
                                    continue
                                self._exec(self._target(t, 1 if truth else 0), env, b2, onpath, depth)
                            return
                    elif v[0] == 'p' and v[1].is_const():
                        bb = self._target(t, v[1].const_value())
                    else:
                        raise Unsupported('switch on %s' % v[0])
                else:
                    raise Unsupported('terminator %s' % k)
        finally:
            self.box = saved_box

    def _target(self, t, val):
        for v, tgt in t['targets']:
            if v == val:
                return tgt
        return t['otherwise']

    def _is_loop_head(self, bb):
        return any(t == bb for (s, t) in self.cfg.back_edges())

    # ---- the accumulation loop of `new`
    def _loop(self, head, env):
        b = self.b
        blocks = self.cfg.loop_blocks(head)
        # find the `next` call and its Some/None targets
        next_bb = None
        for bi in blocks:
            t = b.blocks[bi]['term']
            if t['k'] == 'call' and callee(t) == 'std::iter::Iterator::next':
                next_bb = bi
        if next_bb is None:
            raise Unsupported('loop without Iterator::next')
        nt = b.blocks[next_bb]['term']
        sw_bb = nt['target']
        sw = b.blocks[sw_bb]['term']
        if sw['k'] != 'switch':
            raise Unsupported('loop shape')
        some_t, none_t = self._target(sw, 1), self._target(sw, 0)
        self._loop_next = next_bb
        # carried integer locals: assigned in the loop and set before it
        carried = []
        for bi in blocks:
            for st in b.blocks[bi]['stmts']:
                l = st['dst']['l']
                if not st['dst']['proj'] and l in env and env[l][0] == 'p' and l not in carried and b.local_name(l):
                    carried.append(l)
        # soundness of the template: everything else the loop overwrites must be born inside the loop.  A value that exists
        # before the loop and is re-assigned in it without being one of the recognised integer accumulators (a tuple
        # accumulator of a fold, an unnamed temporary) is loop-carried state this engine would silently freeze
        for bi in blocks:
            blk_ = b.blocks[bi]
            dsts = [st['dst']['l'] for st in blk_['stmts']]
            if blk_['term']['k'] == 'call' and isinstance(blk_['term'].get('dst'), dict):
                dsts.append(blk_['term']['dst']['l'])
            for l in dsts:
                if l in env and l not in carried and env[l][0] in ('p', 'tuple', 'obj'):
                    raise Unsupported('loop-carried value outside the accumulator template (local _%d: %s)' % (l, b.local_ty(l)))
        # per-iteration symbols
        self.box.d['x'] = (0, 255)
        self.box.d['i'] = (0, self.nmax - 1)

        def iteration(bounds, check):
            env2 = dict(env)
            for l in carried:
                s = 'acc_%s' % (b.local_name(l))
                self.box.d[s] = bounds.get(l, (0, 1 << 200))
                env2[l] = ('p', Poly.sym(s), env[l][2])
            old_check = self.check
            self.check = check
            res = {}
            try:
                self._iter_env = None
                self._run_iteration(head, env2, head, blocks)
                res = self._iter_env
            finally:
                self.check = old_check
            return res
        e1 = iteration({}, False)
        if e1 is None:
            raise Unsupported('loop body does not return to its head')
        forms = {}
        for l in carried:
            s = 'acc_%s' % b.local_name(l)
            new = e1[l][1]
            term = new - Poly.sym(s)
            if s not in term.syms():
                forms[l] = ('plain', term)
            else:
                ss = new.syms()
                if len(ss) == 1 and ss[0] in self.cong and new == Poly.sym(ss[0]):
                    inner = self.cong[ss[0]] - Poly.sym(s)
                    if s in inner.syms():
                        raise Unsupported('accumulator %s has a non-additive update' % b.local_name(l))
                    forms[l] = ('mod', inner)
                else:
                    raise Unsupported('accumulator %s has a non-additive update' % b.local_name(l))
        bounds = {}
        for l, (form, term) in forms.items():
            lo, hi = self.box.bounds(term)
            self.ob(lo >= 0, 'non-negative', 'loop term of %s' % b.local_name(l), b.blocks[head]['term']['line'], 'term range [%d, %d]: %s' % (lo, hi, term))
            ilo, ihi = self.box.bounds(env[l][1])
            bounds[l] = (0, max(self.M - 1, ihi)) if form == 'mod' else (min(0, ilo), max(0, (self.nmax - 1) * hi) + max(0, ihi))
        iteration(bounds, True)
        # after the loop
        env3 = dict(env)
        for l, (form, term) in forms.items():
            lo, hi = self.box.bounds(term)
            name = 'S[%s]' % term
            self.ssyms[name] = term
            self.box.d[name] = (0, self.nmax * max(hi, 0))
            init = env[l][1]        # the value the accumulator had before the loop (normally the constant 0)
            if form == 'plain':
                env3[l] = ('p', init + Poly.sym(name), env[l][2])
            else:
                r = self.fresh('r', 0, self.M - 1)
                self.cong[r] = init + Poly.sym(name)
                env3[l] = ('p', Poly.sym(r), env[l][2])
        env3 = self.write(env3, nt['dst'], ('none',))
        return none_t, env3

    def _run_iteration(self, bb, env, head, blocks):
        """straight-line execution of one iteration until the back edge; records env at the head."""
        b = self.b
        steps = 0
        while True:
            steps += 1
            if steps > 300:
                raise Unsupported('iteration too long')
            if bb == head and steps > 1:
                self._iter_env = env
                return
            if bb not in blocks:
                raise Unsupported('loop iteration leaves the loop (break / early return)')
            blk = b.blocks[bb]
            for st in blk['stmts']:
                val = self._weight_idiom(env, st)
                if val is None:
                    val = self.rvalue(env, st['rv'], st['line'])
                env = self.write(env, st['dst'], val)
            t = blk['term']
            k = t['k']
            if k in ('goto', 'drop'):
                bb = t['target']
            elif k == 'assert':
                bb = t['target']
            elif k == 'call' and bb == self._loop_next:
                it = self.operand(env, t['args'][0], t['line'])
                while it[0] == 'ref':
                    it = it[1]
                if it[0] != 'iter':
                    raise Unsupported('loop over %s' % it[0])
                item = ('item', Poly.sym('i') if it[2] else None, Poly.sym('x'))
                env = self.write(env, t['dst'], item)
                bb = t['target']
            elif k == 'call':
                v = self.call(env, t, t['line'])
                if v[0] in ('panic', 'next'):
                    raise Unsupported('call in loop body')
                env = self.write(env, t['dst'], v)
                bb = t['target']
            elif k == 'switch':
                v = self.operand(env, t['on'], t['line'])
                if v[0] == 'bool':
                    bb = self._target(t, 1 if v[1] else 0)
                elif v[0] == 'discr':
                    bb = self._target(t, v[1])
                elif v[0] == 'cmp' and self.decide(v, self.box) is not None:
                    bb = self._target(t, 1 if self.decide(v, self.box) else 0)
                else:
                    raise Unsupported('data-dependent branch inside the accumulation loop')
            else:
                raise Unsupported('terminator %s in loop' % k)

    def _weight_idiom(self, env, st):
        """`len - i` (i = enumerate index over the slice whose length is len) is the weight w in [1, N]."""
        rv = st['rv']
        if rv['k'] == 'bin' and rv['op'] in ('Sub', 'SubWithOverflow', 'SubUnchecked'):
            a = self.operand(env, rv['ops'][0], st['line'])
            b_ = self.operand(env, rv['ops'][1], st['line'])
            if a[0] == 'p' and b_[0] == 'p' and a[1] == Poly.sym('n') and b_[1] == Poly.sym('i'):
                self.box.d['w'] = (1, self.nmax)
                self.ob(True, 'wrap-free', 'Sub@L%d' % st['line'], st['line'], 'len - i with i < len (enumerate over the same slice): in [1, %d]' % self.nmax)
                p = Poly.sym('w')
                return ('ovf', p, a[2]) if rv['op'] == 'SubWithOverflow' else ('p', p, a[2])
        return None
