"""Frozen tables (DESIGN §4 WMC/ERR, Appendix F).  Every entry was confirmed by reading."""

# fs-mutators: declared callee path -> positions of the *mutated path* arguments
FS_MUTATORS = {
    'std::fs::rename': [0, 1],
    'std::fs::remove_file': [0],
    'std::fs::remove_dir': [0],
    'std::fs::remove_dir_all': [0],
    'std::fs::copy': [1],
    'std::fs::write': [0],
    'std::fs::File::create': [0],
    'std::fs::File::create_new': [0],
    'std::fs::create_dir': [0],
    'std::fs::create_dir_all': [0],
    'std::fs::hard_link': [1],
    'std::os::unix::fs::symlink': [1],
    'std::fs::set_permissions': [0],
    'std::fs::File::set_modified': [],
    'std::fs::File::set_len': [],
    'std::fs::File::set_times': [],
    'std::fs::OpenOptions::open': [1],       # mutating only when opened for write; callers classify
    'tokio::fs::rename': [0, 1],
    'tokio::fs::remove_file': [0],
    'tokio::fs::remove_dir_all': [0],
    'tokio::fs::copy': [1],
    'tokio::fs::write': [0],
    'tokio::fs::File::create': [0],
    'tokio::fs::create_dir_all': [0],
    'tokio::fs::create_dir': [0],
    'tokio::fs::OpenOptions::open': [1],
}
# content creators: calls that put bytes at a path (not directory creation, not rename)
CONTENT_CREATORS = {
    'std::fs::copy': 1, 'std::fs::write': 0, 'std::fs::File::create': 0, 'std::fs::File::create_new': 0,
    'tokio::fs::copy': 1, 'tokio::fs::write': 0, 'tokio::fs::File::create': 0,
    'std::fs::OpenOptions::open': 1, 'tokio::fs::OpenOptions::open': 1,
}
FS_READERS = {
    'std::fs::read': 0, 'std::fs::read_to_string': 0, 'std::fs::File::open': 0, 'std::fs::OpenOptions::open': 1,
    'tokio::fs::read': 0, 'tokio::fs::read_to_string': 0, 'tokio::fs::File::open': 0,
}
SPAWNERS = {
    'std::process::Command::new', 'tokio::process::Command::new',
}
TIME_READERS = {
    'std::fs::Metadata::modified', 'std::fs::Metadata::accessed', 'std::fs::Metadata::created',
    'std::time::SystemTime::now', 'std::time::SystemTime::elapsed', 'std::time::Instant::now',
    'std::os::unix::fs::MetadataExt::mtime', 'std::os::unix::fs::MetadataExt::ctime',
    'std::os::unix::fs::MetadataExt::atime', 'std::os::unix::fs::MetadataExt::mtime_nsec',
}
