"""DD — decision-DAG extraction for loop-free pure functions (DESIGN §4 DD, Appendix C).

An abstract interpreter over MIR.  Inputs are symbolic; branch conditions are abstracted to
atoms from a small vocabulary (`has(x)`, `same(x,y)`, `eq(x,y)`); every acyclic path is explored
with a partial atom valuation.  No solver: atoms are opaque booleans, consistency (equivalence
closure) is applied by the caller when it enumerates total valuations.
"""
from facts import callee, norm


class Undecided(Exception):
    """A construct outside the modelled set: no verdict rather than a guessed one."""


class DataDependence(Exception):
    """A symbolic input value flowed into an operation other than the vocabulary predicates."""


# ---- value constructors -------------------------------------------------------------------
def Sym(name):
    return ('sym', name)


def Opt(name):
    """Symbolic Option input; payload is Sym(name)."""
    return ('opt', name)


def is_symbolic(v):
    if not isinstance(v, tuple):
        return False
    if v[0] in ('sym', 'opt', 'fld'):
        return True
    if v[0] in ('tuple',):
        return any(is_symbolic(x) for x in v[1])
    if v[0] == 'adt':
        return any(is_symbolic(x) for x in v[3])
    if v[0] == 'some':
        return is_symbolic(v[1])
    return False


def sym_key(v):
    if v[0] == 'sym':
        return v[1]
    if v[0] == 'fld':
        return '%s.%s' % (sym_key(v[1]), v[2])
    if v[0] == 'opt':
        return 'opt:' + v[1]
    if v[0] == 'some':
        return 'some(%s)' % sym_key(v[1])
    if v[0] == 'none':
        return 'none'
    if v[0] == 'const':
        return 'const:%r' % (v[1],)
    raise Undecided('no symbolic key for %r' % (v,))


def atom2(pred, x, y):
    a, b = sorted([sym_key(x), sym_key(y)])
    if a == b:
        return True
    return ('atom', (pred, a, b))


def f_not(f):
    if f is True:
        return False
    if f is False:
        return True
    if isinstance(f, tuple) and f[0] == 'not':
        return f[1]
    return ('not', f)


def eval_formula(f, asg):
    """-> True / False / ('need', atom)"""
    if f is True or f is False:
        return f
    if f[0] == 'atom':
        if f[1] in asg:
            return asg[f[1]]
        return ('need', f[1])
    if f[0] == 'not':
        r = eval_formula(f[1], asg)
        if r is True or r is False:
            return not r
        return r
    if f[0] in ('and', 'or'):
        a = eval_formula(f[1], asg)
        if a is True or a is False:
            if f[0] == 'and' and not a:
                return False
            if f[0] == 'or' and a:
                return True
            return eval_formula(f[2], asg)
        return a
    raise Undecided('formula %r' % (f,))


class DD:
    def __init__(self, F, vocabulary=None, max_depth=6):
        self.F = F
        # vocabulary: callee path -> function(args values) -> formula
        self.vocab = vocabulary or {}
        self.max_depth = max_depth
        self.leaves_explored = 0

    # ---------------------------------------------------------------- public
    def run(self, path, args):
        """Explore `path` with argument values `args` -> [(assignment dict, return value)]."""
        b = self.F.body(path)
        if b is None:
            raise Undecided('no body for %s' % path)
        return self._exec_fn(b, args, {}, 0)

    # ---------------------------------------------------------------- interpreter
    def _exec_fn(self, body, args, asg, depth):
        if depth > self.max_depth:
            raise Undecided('call depth exceeded in %s' % body.path)
        env = {}
        for i, a in enumerate(args):
            env[i + 1] = a
        return self._exec_from(body, 0, env, asg, depth, frozenset())

    def _read_place(self, body, p, env, asg):
        """-> value, or ('needfork', atom)"""
        if p['l'] not in env:
            raise Undecided('%s: read of unset local _%d' % (body.path, p['l']))
        v = env[p['l']]
        for e in p['proj']:
            if e == 'deref':
                if isinstance(v, tuple) and v[0] == 'ref':
                    v = v[1]
                continue
            if e == 'opaque':
                continue
            if 'f' in e:
                name = e['name'] if e['name'] != '' else str(e['f'])
                if v[0] == 'tuple':
                    v = v[1][e['f']]
                elif v[0] == 'adt':
                    v = v[3][e['f']]
                elif v[0] == 'some_payload':
                    v = v[1]
                elif v[0] == 'closure':
                    v = v[2][e['f']]
                elif v[0] in ('sym', 'fld'):
                    v = ('fld', v, name)
                else:
                    raise Undecided('%s: field %s of %r' % (body.path, name, v))
            elif 'dc' in e:
                # downcast: (x as Some) -> payload holder
                if v[0] == 'opt':
                    if e['name'] != 'Some':
                        raise Undecided('downcast %s of option' % e['name'])
                    v = ('some_payload', Sym(v[1]))
                elif v[0] == 'some':
                    v = ('some_payload', v[1])
                elif v[0] == 'adt':
                    pass
                else:
                    raise Undecided('%s: downcast of %r' % (body.path, v))
            else:
                if is_symbolic(v):
                    raise DataDependence('%s: indexing into symbolic value %s' % (body.path, sym_key(v)))
                raise Undecided('%s: projection %r' % (body.path, e))
        return v

    def _operand(self, body, op, env, asg):
        if op['k'] == 'const':
            if 'fn' in op:
                return ('fnitem', norm(op.get('fn_resolved') or op['fn']))
            if 'v' in op:
                return ('const', op['v'])
            if 's' in op:
                return ('const', op['s'])
            return ('const', op.get('dbg'))
        return self._read_place(body, op['p'], env, asg)

    def _rvalue(self, body, rv, env, asg):
        k = rv['k']
        if k in ('use',):
            return self._operand(body, rv['ops'][0], env, asg)
        if k == 'ref':
            return self._read_place(body, rv['p'], env, asg)   # references are transparent
        if k == 'cast':
            v = self._operand(body, rv['ops'][0], env, asg)
            if is_symbolic(v):
                raise DataDependence('%s: cast of symbolic value %s' % (body.path, sym_key(v)))
            return v
        if k == 'discr':
            v = self._read_place(body, rv['p'], env, asg)
            if v[0] == 'opt':
                return ('discr_opt', v[1])
            if v[0] == 'some':
                return ('const', 1)
            if v[0] == 'none':
                return ('const', 0)
            if v[0] == 'adt':
                return ('const', v[4])
            raise Undecided('%s: discriminant of %r' % (body.path, v))
        if k == 'agg':
            ops = [self._operand(body, o, env, asg) for o in rv['ops']]
            ak = rv['ak']
            if ak == 'tuple':
                return ('tuple', ops)
            if ak == 'adt':
                adt = norm(rv['adt'])
                if adt == 'std::option::Option':
                    return ('some', ops[0]) if rv['vname'] == 'Some' else ('none',)
                return ('adt', adt, rv['vname'], ops, rv['variant'])
            if ak == 'closure':
                return ('closure', norm(rv['def']), ops)
            raise Undecided('%s: aggregate %s' % (body.path, ak))
        if k == 'un' and rv['op'] == 'Not':
            v = self._operand(body, rv['ops'][0], env, asg)
            if v[0] == 'bool':
                return ('bool', f_not(v[1]))
            if v[0] == 'const':
                return ('const', 0 if v[1] else 1)
            raise Undecided('%s: Not of %r' % (body.path, v))
        if k == 'bin' and rv['op'] in ('Eq', 'Ne'):
            a = self._operand(body, rv['ops'][0], env, asg)
            b = self._operand(body, rv['ops'][1], env, asg)
            if a[0] == 'const' and b[0] == 'const':
                r = (a[1] == b[1])
                return ('const', int(r if rv['op'] == 'Eq' else not r))
            if a[0] == 'bool' or b[0] == 'bool':
                raise Undecided('%s: comparison of booleans' % body.path)
            f = atom2('eq', a, b)
            return ('bool', f if rv['op'] == 'Eq' else f_not(f))
        if k == 'bin':
            a = self._operand(body, rv['ops'][0], env, asg)
            b = self._operand(body, rv['ops'][1], env, asg)
            if is_symbolic(a) or is_symbolic(b):
                raise DataDependence('%s: %s applied to symbolic input %s' % (
                    body.path, rv['op'], sym_key(a) if is_symbolic(a) else sym_key(b)))
            raise Undecided('%s: binary op %s' % (body.path, rv['op']))
        raise Undecided('%s: rvalue %s' % (body.path, k))

    def _truth(self, v):
        """bool-ish value -> formula"""
        if v[0] == 'bool':
            return v[1]
        if v[0] == 'const':
            return bool(v[1])
        raise Undecided('not a boolean: %r' % (v,))

    def _exec_from(self, body, bb, env, asg, depth, visited):
        out = []
        stack = [(bb, env, asg, visited)]
        while stack:
            bb, env, asg, visited = stack.pop()
            if bb in visited:
                raise Undecided('%s: loop at bb%d (DD handles loop-free functions only)' % (body.path, bb))
            visited = visited | {bb}
            blk = body.blocks[bb]
            for st in blk['stmts']:
                if st['dst']['proj']:
                    raise Undecided('%s: write through projection' % body.path)
                env = dict(env)
                env[st['dst']['l']] = self._rvalue(body, st['rv'], env, asg)
            t = blk['term']
            k = t['k']
            if k == 'goto':
                stack.append((t['target'], env, asg, visited))
            elif k == 'drop':
                stack.append((t['target'], env, asg, visited))
            elif k == 'return':
                self.leaves_explored += 1
                if 0 not in env:
                    raise Undecided('%s: return without value' % body.path)
                out.append((asg, env[0]))
            elif k == 'switch':
                v = self._operand(body, t['on'], env, asg)
                if v[0] == 'const':
                    tgt = t['otherwise']
                    for val, tb in t['targets']:
                        if val == int(v[1]):
                            tgt = tb
                    stack.append((tgt, env, asg, visited))
                elif v[0] == 'discr_opt':
                    atom = ('has', v[1])
                    for truth in ([asg[atom]] if atom in asg else [True, False]):
                        a2 = dict(asg)
                        a2[atom] = truth
                        want = 1 if truth else 0
                        tgt = t['otherwise']
                        for val, tb in t['targets']:
                            if val == want:
                                tgt = tb
                        stack.append((tgt, env, a2, visited))
                elif v[0] == 'bool':
                    for a2, truth in self._decide(v[1], asg):
                        want = 1 if truth else 0
                        tgt = t['otherwise']
                        hit = False
                        for val, tb in t['targets']:
                            if val == want:
                                tgt = tb
                                hit = True
                        if not hit and want == 0 and any(val == 1 for val, _ in t['targets']):
                            tgt = t['otherwise']
                        stack.append((tgt, env, a2, visited))
                else:
                    if is_symbolic(v):
                        raise DataDependence('%s: branch on symbolic value %s' % (body.path, sym_key(v)))
                    raise Undecided('%s: switch on %r' % (body.path, v))
            elif k == 'call':
                for a2, val in self._call(body, t, env, asg, depth):
                    if t['target'] is None:
                        continue
                    e2 = dict(env)
                    if t['dst']['proj']:
                        raise Undecided('%s: call result through projection' % body.path)
                    e2[t['dst']['l']] = val
                    stack.append((t['target'], e2, a2, visited))
            elif k == 'unreachable':
                continue
            elif k == 'assert':
                stack.append((t['target'], env, asg, visited))
            else:
                raise Undecided('%s: terminator %s' % (body.path, k))
        return out

    def _decide(self, f, asg):
        """-> [(assignment, truth)] forking on undetermined atoms."""
        r = eval_formula(f, asg)
        if r is True or r is False:
            return [(asg, r)]
        atom = r[1]
        out = []
        for truth in (True, False):
            a2 = dict(asg)
            a2[atom] = truth
            out.extend(self._decide(f, a2))
        return out

    def _fork_has(self, name, asg):
        atom = ('has', name)
        if atom in asg:
            return [(asg, asg[atom])]
        out = []
        for truth in (True, False):
            a2 = dict(asg)
            a2[atom] = truth
            out.append((a2, truth))
        return out

    def _apply(self, fval, args, asg, depth):
        """Call a closure / fn-item value -> [(asg, value)]"""
        if fval[0] == 'closure':
            b = self.F.body(fval[1])
            if b is None:
                raise Undecided('closure body %s missing' % fval[1])
            return self._exec_fn(b, [('closure', fval[1], fval[2])] + list(args), asg, depth + 1)
        if fval[0] == 'fnitem':
            return self._call_path(fval[1], list(args), asg, depth)
        raise Undecided('call of %r' % (fval,))

    def _call_path(self, c, args, asg, depth):
        if c in self.vocab:
            f = self.vocab[c](args)
            return [(asg, ('bool', f) if not (isinstance(f, tuple) and f and f[0] in ('const', 'some', 'none', 'sym', 'opt', 'adt', 'tuple')) else f)]
        b = self.F.body(c)
        if b is not None:
            return self._exec_fn(b, args, asg, depth + 1)
        raise Undecided('unmodelled callee %s' % c)

    def _call(self, body, t, env, asg, depth):
        c = callee(t)
        args = [self._operand(body, a, env, asg) for a in t['args']]
        if c is None:
            raise Undecided('%s: indirect call' % body.path)
        if c in ('std::ops::Fn::call', 'std::ops::FnMut::call_mut', 'std::ops::FnOnce::call_once') and len(args) == 2 and \
                isinstance(args[1], tuple) and args[1][0] == 'tuple' and isinstance(args[0], tuple) and args[0][0] in ('closure', 'fnitem'):
            # a local closure called by name (`let kept = |x| ..; kept(&av)`): the tuple is its argument list
            return self._apply(args[0], list(args[1][1]), asg, depth)
        O = 'std::option::Option::<T>::'
        if c in (O + 'is_some_and', O + 'map_or', O + 'map', O + 'is_some', O + 'is_none', O + 'map_or_else', O + 'unwrap_or',
                 O + 'unwrap_or_else', O + 'unwrap_or_default', O + 'is_none_or', O + 'and_then', O + 'filter',
                 'std::option::Option::<&T>::copied', 'std::option::Option::<&T>::cloned', O + 'as_ref'):
            opt = args[0]
            meth = c.split('::')[-1]
            if meth in ('copied', 'cloned', 'as_ref'):
                return [(asg, opt)]
            if opt[0] == 'opt':
                branches = [(a2, (Sym(opt[1]) if has else None)) for a2, has in self._fork_has(opt[1], asg)]
            elif opt[0] == 'some':
                branches = [(asg, opt[1])]
            elif opt[0] == 'none':
                branches = [(asg, None)]
            else:
                raise Undecided('%s: %s on %r' % (body.path, meth, opt))
            out = []
            for a2, payload in branches:
                if meth == 'is_some':
                    out.append((a2, ('const', int(payload is not None))))
                elif meth == 'is_none':
                    out.append((a2, ('const', int(payload is None))))
                elif meth == 'is_some_and':
                    if payload is None:
                        out.append((a2, ('const', 0)))
                    else:
                        out.extend(self._apply(args[1], [payload], a2, depth))
                elif meth == 'map_or':
                    if payload is None:
                        out.append((a2, args[1]))
                    else:
                        out.extend(self._apply(args[2], [payload], a2, depth))
                elif meth == 'map_or_else':
                    if payload is None:
                        out.extend(self._apply(args[1], [], a2, depth))
                    else:
                        out.extend(self._apply(args[2], [payload], a2, depth))
                elif meth == 'map':
                    if payload is None:
                        out.append((a2, ('none',)))
                    else:
                        for a3, v in self._apply(args[1], [payload], a2, depth):
                            out.append((a3, ('some', v)))
                elif meth == 'unwrap_or':
                    out.append((a2, args[1] if payload is None else payload))
                elif meth == 'unwrap_or_else':
                    if payload is None:
                        out.extend(self._apply(args[1], [], a2, depth))
                    else:
                        out.append((a2, payload))
                elif meth == 'unwrap_or_default':
                    out.append((a2, ('const', 0) if payload is None else payload))
                elif meth == 'is_none_or':
                    if payload is None:
                        out.append((a2, ('const', 1)))
                    else:
                        out.extend(self._apply(args[1], [payload], a2, depth))
                elif meth == 'and_then':
                    if payload is None:
                        out.append((a2, ('none',)))
                    else:
                        out.extend(self._apply(args[1], [payload], a2, depth))
                elif meth == 'filter':
                    # the same payload or nothing: the predicate only decides
                    if payload is None:
                        out.append((a2, ('none',)))
                    else:
                        for a3, v in self._apply(args[1], [payload], a2, depth):
                            for a4, tv in self._decide(self._truth(v), a3):
                                out.append((a4, ('some', payload) if tv else ('none',)))
            return out
        if c in (O + 'zip', O + 'xor', O + 'or', O + 'and'):
            meth = c.split('::')[-1]

            def forks(opt, a0):
                if opt[0] == 'opt':
                    return [(a2, (Sym(opt[1]) if has else None)) for a2, has in self._fork_has(opt[1], a0)]
                if opt[0] == 'some':
                    return [(a0, opt[1])]
                if opt[0] == 'none':
                    return [(a0, None)]
                raise Undecided('%s: %s on %r' % (body.path, meth, opt))
            out = []
            for a2, p0 in forks(args[0], asg):
                for a3, p1 in forks(args[1], a2):
                    if meth == 'zip':
                        out.append((a3, ('some', ('tuple', [p0, p1])) if p0 is not None and p1 is not None else ('none',)))
                    elif meth == 'and':
                        out.append((a3, ('some', p1) if p0 is not None and p1 is not None else ('none',)))
                    elif meth == 'or':
                        out.append((a3, ('some', p0) if p0 is not None else (('some', p1) if p1 is not None else ('none',))))
                    else:
                        out.append((a3, ('some', p0) if (p0 is not None and p1 is None) else (('some', p1) if (p1 is not None and p0 is None) else ('none',))))
            return out
        if c in ('std::cmp::PartialEq::eq', 'std::cmp::PartialEq::ne'):
            a, b = args
            if a[0] in ('some', 'none') and b[0] in ('some', 'none'):
                # Option == Option: both Some -> their payloads compare; one of each -> unequal; both None -> equal
                if a[0] == 'some' and b[0] == 'some':
                    f = atom2('eq', a[1], b[1])
                    return [(asg, ('bool', f if c.endswith('::eq') else f_not(f)))]
                r = a[0] == b[0]
                return [(asg, ('const', int(r if c.endswith('::eq') else not r)))]
            if a[0] == 'adt' and b[0] == 'adt':
                r = (a[1], a[2]) == (b[1], b[2]) and not a[3] and not b[3]
                if a[3] or b[3]:
                    raise Undecided('%s: eq on data-carrying enums' % body.path)
                return [(asg, ('const', int(r if c.endswith('::eq') else not r)))]
            f = atom2('eq', a, b)
            return [(asg, ('bool', f if c.endswith('::eq') else f_not(f)))]
        if c in ('std::clone::Clone::clone', 'std::ops::Deref::deref', 'std::convert::Into::into', 'std::convert::From::from',
                 'std::borrow::Borrow::borrow', 'std::convert::AsRef::as_ref'):
            return [(asg, args[0])]
        for a in args:
            if is_symbolic(a) and c not in self.vocab and self.F.body(c) is None:
                # a library call this engine has no model for: what it does with the value is unknown - not evidence that the
                # decision depends on the data (only operations that inspect the bytes themselves are: comparisons, casts, indexing)
                if c in ('std::ops::Index::index', 'std::ops::IndexMut::index_mut') or c.endswith('::get') or c.endswith('::as_slice') or c.endswith('::to_vec') or \
                        c.endswith('::first') or c.endswith('::last') or c.endswith('::starts_with') or c.endswith('::ends_with') or c.endswith('::cmp') or c.endswith('::partial_cmp') or \
                        c.endswith('::hash') or c.endswith('::iter'):
                    raise DataDependence('%s: symbolic input %s passed to %s' % (body.path, sym_key(a), c))
                raise Undecided('%s: symbolic input %s passed to unmodelled %s' % (body.path, sym_key(a), c))
        return self._call_path(c, args, asg, depth)


def show(v):
    if v[0] == 'adt':
        inner = ','.join(show(x) for x in v[3])
        return v[2] + ('(%s)' % inner if inner else '')
    if v[0] == 'const':
        return repr(v[1])
    if v[0] == 'bool':
        return 'bool:%r' % (v[1],)
    return repr(v)
