// Triage demonstrations of F1, F2, F3, F5 against the real library (drop into <worktree>/tests/ and run
// `cargo test --offline --test f_lib`).  Each test FAILS on the pinned tree and passes after the fix: commits.
use copia::{CopiaSync, FastRollingChecksum, RollingChecksum, Sync};
use std::io::Cursor;

fn reference(data: &[u8]) -> u32 {
    let m = 65521u64;
    let n = data.len() as u64;
    let (mut a, mut b) = (0u64, 0u64);
    for (i, &x) in data.iter().enumerate() {
        a += u64::from(x);
        b += (n - i as u64) * u64::from(x);
    }
    (((b % m) as u32) << 16) | ((a % m) as u32)
}

#[test]
fn f1_new_wraps_in_32_bits() {
    let d = vec![0xFFu8; 8192];
    assert_eq!(RollingChecksum::new(&d).digest(), reference(&d), "RollingChecksum::new vs definition");
    assert_eq!(RollingChecksum::new(&d).digest(), FastRollingChecksum::new(&d).digest(), "both types");
}

#[test]
fn f2_roll_underflows() {
    let data = vec![0xF0u8; 1001];
    let w = 600;
    let mut r = RollingChecksum::new(&data[..w]);
    let mut wrong = 0;
    for i in 0..401 {
        r.roll(data[i], data[i + w]);
        if r.digest() != reference(&data[i + 1..i + 1 + w]) {
            wrong += 1;
        }
    }
    assert_eq!(wrong, 0, "{wrong}/401 slides differ from the definition");
}

#[test]
fn f3_identical_high_byte_file_is_all_literal() {
    let data = vec![0xFFu8; 65536];
    let s = CopiaSync::with_block_size(8192);
    let sig = s.signature(Cursor::new(&data)).unwrap();
    let d = s.delta(Cursor::new(&data), &sig).unwrap();
    assert!(d.bytes_literal() < 8192, "identical file: {} literal bytes", d.bytes_literal());
}

#[test]
fn f5_patch_on_inconsistent_delta_returns_error() {
    let mut d = copia::Delta::new(2048, 10, 0);
    d.push_literal(b"abc"); // ops sum to 3, header says 10
    let r = std::panic::catch_unwind(|| {
        let s = CopiaSync::new();
        let mut out = Vec::new();
        s.patch(Cursor::new(Vec::<u8>::new()), &d, &mut out)
    });
    match r {
        Ok(Err(_)) => {}
        Ok(Ok(())) => panic!("patch reported success on an inconsistent delta"),
        Err(_) => panic!("patch panicked (debug_assert) on an untrusted delta instead of returning an error"),
    }
}
