#!/bin/bash
# Triage demonstrations against a built copia binary:  findings/demo_cli.sh <path-to-copia> <Fxx>
# Exit 0 = the defect is NOT present (fixed); exit 1 = the defect shows.
set -u
COPIA="$1"; WHICH="$2"
T=$(mktemp -d /tmp/copia-demo.XXXXXX); trap 'chmod -R u+w "$T" 2>/dev/null; rm -rf "$T"' EXIT
cd "$T"
case "$WHICH" in
F4)
  head -c 5000 /dev/urandom > old; cp old new; echo x >> new
  "$COPIA" signature old -o old.sig >/dev/null 2>&1 || exit 2
  # Signature{block_size: usize,..}: zero the first 8 bytes (bincode, little endian)
  printf '\0\0\0\0\0\0\0\0' | dd of=old.sig bs=1 count=8 conv=notrunc 2>/dev/null
  "$COPIA" delta new old.sig -o d >out 2>&1; rc=$?
  echo "copia delta with block_size=0 signature: exit=$rc"; tail -2 out
  [ $rc -eq 1 ] && grep -q '^Error' out && exit 0
  exit 1;;
F4p)
  head -c 5000 /dev/urandom > old; cp old new; echo x >> new
  "$COPIA" signature old -o old.sig >/dev/null 2>&1 && "$COPIA" delta new old.sig -o d >/dev/null 2>&1 || exit 2
  printf '\0\0\0\0' | dd of=d bs=1 count=4 conv=notrunc 2>/dev/null
  "$COPIA" patch old d -o outp >out 2>&1; rc=$?
  echo "copia patch with block_size=0 delta: exit=$rc"; tail -2 out
  [ $rc -eq 1 ] && grep -q '^Error' out && exit 0
  exit 1;;
F6)
  mkdir -p src dst; echo 1 > 'src/*ba'; echo 2 > src/keep
  "$COPIA" sync -r --dry-run --exclude '*a' src dst > out 2>&1
  cat out
  grep -q 'send   \*ba' out && { echo "excluded file '*ba' is still planned for transfer"; exit 1; }
  exit 0;;
F9)
  export HOME="$T/home"; mkdir -p "$HOME" A B
  echo v1 > A/p; "$COPIA" bisync A B >/dev/null 2>&1
  rm A/p B/p; "$COPIA" bisync A B >/dev/null 2>&1
  echo v1 > A/p                       # recreated with the old content on A only
  "$COPIA" bisync A B > out 2>&1; cat out | tail -3
  [ -f A/p ] && [ -f B/p ] && exit 0
  echo "A/p exists: $([ -f A/p ] && echo yes || echo NO), B/p exists: $([ -f B/p ] && echo yes || echo NO) -> the recreated file was deleted"; exit 1;;
F10)
  export HOME="$T/home" HOSTNAME=h; mkdir -p "$HOME" A B
  echo base > A/f; "$COPIA" bisync A B >/dev/null 2>&1
  echo zzzz-winner > A/f; echo aaaa-loser > B/f; "$COPIA" bisync A B >/dev/null 2>&1
  c=$(ls A | grep conflict); echo "conflict copy: $c"
  echo "my edits to the kept copy" >> "A/$c"; "$COPIA" bisync A B >/dev/null 2>&1   # propagates the edit
  W=$(cat A/f); L=$(head -1 "A/$c")
  # repeat the same conflict with the same loser content
  echo "$W-again" > A/f; echo aaaa-loser > B/f; "$COPIA" bisync A B >/dev/null 2>&1
  grep -q "my edits" "A/$c" && grep -q "my edits" "B/$c" && exit 0
  echo "the edited conflict-copy $c was overwritten by the repeated loser:"; cat "A/$c"; exit 1;;
*) echo "unknown demo $WHICH"; exit 2;;
esac
