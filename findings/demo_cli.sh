#!/bin/bash
# Triage demonstrations against a built copia binary:  findings/demo_cli.sh <path-to-copia> <Fxx>
# Exit 0 = the defect is NOT present (fixed); exit 1 = the defect shows.
set -u
COPIA="$1"; WHICH="$2"
T=$(mktemp -d /tmp/copia-demo.XXXXXX); trap 'chmod -R u+w "$T" 2>/dev/null; rm -rf "$T"' EXIT
cd "$T"
case "$WHICH" in
F4)
  head -c 5000 /dev/urandom > old; cp old new; echo x >> new
  "$COPIA" signature old -o old.sig >/dev/null 2>&1 || exit 2
  # Signature{block_size: usize,..}: zero the first 8 bytes (bincode, little endian)
  printf '\0\0\0\0\0\0\0\0' | dd of=old.sig bs=1 count=8 conv=notrunc 2>/dev/null
  "$COPIA" delta new old.sig -o d >out 2>&1; rc=$?
  echo "copia delta with block_size=0 signature: exit=$rc"; tail -2 out
  [ $rc -eq 1 ] && grep -q '^Error' out && exit 0
  exit 1;;
F4p)
  head -c 5000 /dev/urandom > old; cp old new; echo x >> new
  "$COPIA" signature old -o old.sig >/dev/null 2>&1 && "$COPIA" delta new old.sig -o d >/dev/null 2>&1 || exit 2
  printf '\0\0\0\0' | dd of=d bs=1 count=4 conv=notrunc 2>/dev/null
  "$COPIA" patch old d -o outp >out 2>&1; rc=$?
  echo "copia patch with block_size=0 delta: exit=$rc"; tail -2 out
  [ $rc -eq 1 ] && grep -q '^Error' out && exit 0
  exit 1;;
F6)
  mkdir -p src dst; echo 1 > 'src/*ba'; echo 2 > src/keep
  "$COPIA" sync -r --dry-run --exclude '*a' src dst > out 2>&1
  cat out
  grep -q 'send   \*ba' out && { echo "excluded file '*ba' is still planned for transfer"; exit 1; }
  exit 0;;
F9)
  export HOME="$T/home"; mkdir -p "$HOME" A B
  echo v1 > A/p; "$COPIA" bisync A B >/dev/null 2>&1
  rm A/p B/p; "$COPIA" bisync A B >/dev/null 2>&1
  echo v1 > A/p                       # recreated with the old content on A only
  "$COPIA" bisync A B > out 2>&1; cat out | tail -3
  [ -f A/p ] && [ -f B/p ] && exit 0
  echo "A/p exists: $([ -f A/p ] && echo yes || echo NO), B/p exists: $([ -f B/p ] && echo yes || echo NO) -> the recreated file was deleted"; exit 1;;
F10)
  export HOME="$T/home" HOSTNAME=h; mkdir -p "$HOME" A B
  echo base > A/f; "$COPIA" bisync A B >/dev/null 2>&1
  echo zzzz-winner > A/f; echo aaaa-loser > B/f; "$COPIA" bisync A B >/dev/null 2>&1
  c=$(ls A | grep conflict); echo "conflict copy: $c"
  echo "my edits to the kept copy" >> "A/$c"; "$COPIA" bisync A B >/dev/null 2>&1   # propagates the edit
  W=$(cat A/f); L=$(head -1 "A/$c")
  # repeat the same conflict with the same loser content
  echo "$W-again" > A/f; echo aaaa-loser > B/f; "$COPIA" bisync A B >/dev/null 2>&1
  grep -q "my edits" "A/$c" && grep -q "my edits" "B/$c" && exit 0
  echo "the edited conflict-copy $c was overwritten by the repeated loser:"; cat "A/$c"; exit 1;;
F7)
  # ssh stand-in: ignore the host, run the remote command locally
  mkdir bin; printf '#!/bin/bash\nshift\nexec bash -c "$*"\n' > bin/ssh; chmod +x bin/ssh; export PATH="$T/bin:$PATH"
  mkdir -p src dst; echo keep > src/a; cp -p src/a dst/a; touch -r src/a dst/a
  printf 'stale' > "dst/a
b"                                   # destination-only file whose name contains a newline
  "$COPIA" sync -r --delete src "hh:$T/dst" > out 2>&1; rc=$?
  tail -3 out; echo "exit=$rc; dst now: $(ls dst | tr '\n' '|')"
  [ -f dst/a ] && [ ! -e "dst/a
b" ] && exit 0
  echo "the up-to-date file 'a' was deleted and/or the stale file 'a\\nb' survived"; exit 1;;
F16)
  # needs an unprivileged user: the copied 0444 file cannot be opened for write to set its mtime
  chmod 755 "$T"; mkdir -p src dst; echo data > src/f; chmod 444 src/f; touch -d '2020-01-01 00:00:00' src/f; chown -R nobody "$T"
  setpriv --reuid=nobody --regid=nogroup --clear-groups "$COPIA" sync -r src dst > out1 2>&1; rc1=$?
  setpriv --reuid=nobody --regid=nogroup --clear-groups "$COPIA" sync -r src dst > out2 2>&1; rc2=$?
  echo "first run exit=$rc1: $(grep -E 'Complete|FAILED|rror' out1 | head -2 | tr '\n' ' ')"; echo "second run: $(grep -E 'Plan:|Already' out2)"
  [ $rc1 -ne 0 ] && exit 0          # the failure is reported
  grep -q 'Plan: 0 to transfer\|Already up to date' out2 && exit 0
  echo "exit 0 although the mtime could not be carried; the unchanged file is re-sent"; exit 1;;
F17)
  chmod 755 "$T"; mkdir -p src dst; echo keep > src/a; cp -p src/a dst/a; echo stale > dst/old; chown -R nobody "$T"; chmod 555 dst
  setpriv --reuid=nobody --regid=nogroup --clear-groups "$COPIA" sync -r --delete src dst > out 2>&1; rc=$?
  chmod 755 dst
  echo "exit=$rc: $(grep -E 'Deleted|Complete|rror' out | tr '\n' ' ')"; echo "dst/old still exists: $([ -e dst/old ] && echo yes || echo no)"
  [ -e dst/old ] && [ $rc -eq 0 ] && { echo "delete failed silently (reported as deleted, exit 0)"; exit 1; }
  exit 0;;
F17b)
  export HOME="$T/home"; chmod 755 "$T"; mkdir -p "$HOME" A B; echo v > A/f; chown -R nobody "$T"
  P="setpriv --reuid=nobody --regid=nogroup --clear-groups env HOME=$HOME"
  $P "$COPIA" bisync A B >/dev/null 2>&1
  rm A/f; chmod 555 B                 # delete on A; B's directory is read-only so the propagated delete fails
  $P "$COPIA" bisync A B > out 2>&1; rc=$?; chmod 755 B
  echo "exit=$rc: $(tail -1 out)"
  $P "$COPIA" bisync A B > out2 2>&1
  echo "next run: $(grep -E 'plan' out2)"; echo "A/f exists again: $([ -e A/f ] && echo yes || echo no)"
  [ -e A/f ] && { echo "the failed delete was recorded as done; the file the user deleted came back"; exit 1; }
  exit 0;;
F8)
  mkdir bin; printf '#!/bin/bash\nshift\nexec setsid bash -c "$*"\n' > bin/ssh; chmod +x bin/ssh; export PATH="$T/bin:$PATH"
  mkdir -p src dst; head -c 300000000 /dev/zero > src/big; echo old-complete-content > dst/big
  "$COPIA" sync -r src "hh:$T/dst" > out 2>&1 &
  pid=$!; sleep 0.25; kill -9 $pid 2>/dev/null; wait $pid 2>/dev/null
  sleep 2                                     # let the orphaned remote command finish
  sz=$(stat -c %s dst/big); echo "dst/big size after the kill: $sz (source 300000000, old 21)"; ls dst | tr '\n' ' '; echo
  [ "$sz" -eq 300000000 ] || [ "$sz" -eq 21 ] && exit 0
  echo "a truncated file was published"; exit 1;;
*) echo "unknown demo $WHICH"; exit 2;;
esac
