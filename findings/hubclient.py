"""Minimal client for `copia serve` (triage only): framing + just enough CBOR."""
import struct
import subprocess


def enc(v):
    if v is None:
        return b'\xf6'
    if isinstance(v, bool):
        return b'\xf5' if v else b'\xf4'
    if isinstance(v, int):
        return head(0, v)
    if isinstance(v, str):
        b = v.encode()
        return head(3, len(b)) + b
    if isinstance(v, (list, tuple)):
        return head(4, len(v)) + b''.join(enc(x) for x in v)
    if isinstance(v, dict):
        return head(5, len(v)) + b''.join(enc(k) + enc(x) for k, x in v.items())
    raise TypeError(v)


def head(major, n):
    if n < 24:
        return bytes([major << 5 | n])
    if n < 256:
        return bytes([major << 5 | 24, n])
    if n < 65536:
        return bytes([major << 5 | 25]) + struct.pack('>H', n)
    if n < 2 ** 32:
        return bytes([major << 5 | 26]) + struct.pack('>I', n)
    return bytes([major << 5 | 27]) + struct.pack('>Q', n)


def dec(b, i=0):
    ib = b[i]
    major, ai = ib >> 5, ib & 31
    i += 1
    if ai < 24:
        n = ai
    elif ai == 24:
        n = b[i]; i += 1
    elif ai == 25:
        n = struct.unpack('>H', b[i:i + 2])[0]; i += 2
    elif ai == 26:
        n = struct.unpack('>I', b[i:i + 4])[0]; i += 4
    elif ai == 27:
        n = struct.unpack('>Q', b[i:i + 8])[0]; i += 8
    else:
        n = None
    if major == 0:
        return n, i
    if major == 2:
        return bytes(b[i:i + n]), i + n
    if major == 3:
        return b[i:i + n].decode(), i + n
    if major == 4:
        out = []
        for _ in range(n):
            v, i = dec(b, i)
            out.append(v)
        return out, i
    if major == 5:
        out = {}
        for _ in range(n):
            k, i = dec(b, i)
            v, i = dec(b, i)
            out[k] = v
        return out, i
    if major == 7:
        return {20: False, 21: True, 22: None}.get(ai, ai), i
    raise ValueError(ib)


class Hub:
    def __init__(self, copia, root):
        self.p = subprocess.Popen([copia, 'serve', root], stdin=subprocess.PIPE, stdout=subprocess.PIPE)
        self.p.stdin.write(b'COPIA1')
        self.send({'Hello': {'version': 1}})
        self.recv()

    def send(self, msg):
        b = enc(msg)
        self.p.stdin.write(struct.pack('>I', len(b)) + b)
        self.p.stdin.flush()

    def raw(self, data):
        self.p.stdin.write(data)
        self.p.stdin.flush()

    def recv(self):
        h = self.p.stdout.read(4)
        if len(h) < 4:
            return None
        n = struct.unpack('>I', h)[0]
        v, _ = dec(self.p.stdout.read(n))
        return v

    def list(self):
        self.send('List')
        return self.recv()['Fingerprints']

    def close(self):
        try:
            self.p.stdin.close()
        except Exception:
            pass
        self.p.wait(timeout=10)
        return self.p.returncode
