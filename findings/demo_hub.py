#!/usr/bin/python3
"""Triage demonstrations against `copia serve`:  demo_hub.py <copia> <F12|F13|F15>
exit 0 = defect not present, 1 = defect shows."""
import os
import shutil
import sys
import tempfile
import time

sys.path.insert(0, os.path.dirname(os.path.abspath(__file__)))
from hubclient import Hub

copia, which = sys.argv[1], sys.argv[2]
T = tempfile.mkdtemp(prefix='copia-hubdemo.')


def hash_of(content):
    """learn BLAKE3(content) from the hub itself (List of a scratch tree)"""
    d = tempfile.mkdtemp(dir=T)
    open(os.path.join(d, 'x'), 'wb').write(content)
    h = Hub(copia, d)
    fp = h.list()['x']['blake3']
    h.send('Bye')
    h.close()
    return fp


def put(h, path, content, expected=None, length=None, hsh=None):
    h.send({'Put': {'path': path, 'expected': expected, 'len': len(content) if length is None else length,
                    'hash': hsh if hsh is not None else hash_of(content)}})
    h.raw(content)


try:
    root = os.path.join(T, 'root')
    os.mkdir(root)
    if which == 'F13':
        h = Hub(copia, root)
        put(h, 'd/f', b'inner')
        print('Put d/f ->', h.recv())
        put(h, 'd', b'outer')
        r = h.recv()
        print('Put d   ->', r)
        is_dir = os.path.isdir(os.path.join(root, 'd'))
        print('d is a directory:', is_dir, '| leftovers:', sorted(os.listdir(root)))
        h.send('Bye'); h.close()
        bad = isinstance(r, dict) and r.get('PutResult', {}).get('committed') is True and is_dir
        if bad:
            print('acknowledged committed:true although nothing was published')
        sys.exit(1 if bad else 0)
    if which == 'F15':
        h = Hub(copia, root)
        short = b'abcd'
        put(h, 'p', short, length=10, hsh=hash_of(short))
        h.p.stdin.close()          # input closed after 4 of the 10 declared bytes
        r = h.recv()
        print('Put{len:10} + 4 bytes + EOF ->', r)
        live = os.path.exists(os.path.join(root, 'p')) and open(os.path.join(root, 'p'), 'rb').read()
        print('live p:', live)
        h.p.wait(timeout=10)
        sys.exit(1 if live == short else 0)
    if which == 'F12':
        a, b = b'AAAAAAAA', b'BBBB'
        ha, hb = hash_of(a), hash_of(b)
        s1, s2 = Hub(copia, root), Hub(copia, root)
        s1.send({'Put': {'path': 'p', 'expected': None, 'len': len(a), 'hash': ha}})
        s1.raw(a[:4])
        time.sleep(0.5)            # S1 has staged 4 bytes and waits for the rest
        put(s2, 'p', b, hsh=hb)
        r2 = s2.recv()
        print('S2 Put p "BBBB" ->', r2)
        s1.raw(a[4:])
        r1 = s1.recv()
        print('S1 Put p "AAAAAAAA" ->', r1)
        live = open(os.path.join(root, 'p'), 'rb').read()
        print('live p:', live, '| tree:', sorted(os.listdir(root)))
        for s in (s1, s2):
            s.send('Bye'); s.close()
        sys.exit(0 if live in (a, b) else 1)
    sys.exit(2)
finally:
    shutil.rmtree(T, ignore_errors=True)
