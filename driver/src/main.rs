// copia-facts: rustc_private fact extractor (see DESIGN.md §3.1, Appendix A).
//
// Used as RUSTC_WORKSPACE_WRAPPER under `cargo +nightly check`.  For every crate
// compiled it dumps one JSON document to $COPIA_FACTS_DIR: MIR (mir_built, i.e.
// before borrowck and coroutine lowering) of every body owner, evaluated consts,
// ADT definitions, local trait impls and the `format_args!` sites of the expanded
// AST.  It never runs the analysed code.
#![feature(rustc_private)]
#![allow(clippy::all)]

extern crate rustc_abi;
extern crate rustc_ast;
extern crate rustc_ast_pretty;
extern crate rustc_driver;
extern crate rustc_hir;
extern crate rustc_interface;
extern crate rustc_middle;
extern crate rustc_session;
extern crate rustc_span;

use rustc_driver::Compilation;
use rustc_hir::def::DefKind;
use rustc_hir::def_id::{DefId, LocalDefId, LOCAL_CRATE};
use rustc_middle::mir::{
    self, AggregateKind, BasicBlockData, Body, Const, ConstValue, Operand, Place, ProjectionElem,
    Rvalue, StatementKind, TerminatorKind,
};
use rustc_middle::ty::{self, Ty, TyCtxt, TypingEnv};
use rustc_span::Span;
use std::fmt::Write as _;

// ---------------------------------------------------------------- JSON helpers

fn esc(s: &str) -> String {
    let mut o = String::with_capacity(s.len() + 2);
    o.push('"');
    for c in s.chars() {
        match c {
            '"' => o.push_str("\\\""),
            '\\' => o.push_str("\\\\"),
            '\n' => o.push_str("\\n"),
            '\r' => o.push_str("\\r"),
            '\t' => o.push_str("\\t"),
            c if (c as u32) < 0x20 => {
                let _ = write!(o, "\\u{:04x}", c as u32);
            }
            c => o.push(c),
        }
    }
    o.push('"');
    o
}

fn bytes_json(b: &[u8]) -> String {
    let mut o = String::from("[");
    for (i, x) in b.iter().enumerate() {
        if i > 0 {
            o.push(',');
        }
        let _ = write!(o, "{x}");
    }
    o.push(']');
    o
}

// ---------------------------------------------------------------- extractor

struct Ex<'tcx> {
    tcx: TyCtxt<'tcx>,
}

impl<'tcx> Ex<'tcx> {
    fn path(&self, did: DefId) -> String {
        self.tcx.def_path_str(did)
    }

    /// (file, line, col) of the outermost (user-written) call site of `sp`.
    fn loc(&self, sp: Span) -> (String, usize, usize) {
        let sp = sp.source_callsite();
        let sm = self.tcx.sess.source_map();
        let lo = sm.lookup_char_pos(sp.lo());
        let f = format!("{}", lo.file.name.prefer_local_unconditionally());
        (f, lo.line, lo.col.0 + 1)
    }

    fn hi_line(&self, sp: Span) -> usize {
        let sp = sp.source_callsite();
        self.tcx.sess.source_map().lookup_char_pos(sp.hi()).line
    }

    fn ty(&self, t: Ty<'tcx>) -> String {
        format!("{t}")
    }

    fn place(&self, body: &Body<'tcx>, p: &Place<'tcx>) -> String {
        let mut o = format!("{{\"l\":{},\"proj\":[", p.local.as_usize());
        let mut first = true;
        let mut cur = mir::PlaceRef { local: p.local, projection: &[] };
        for (i, e) in p.projection.iter().enumerate() {
            if !first {
                o.push(',');
            }
            first = false;
            match e {
                ProjectionElem::Deref => o.push_str("\"deref\""),
                ProjectionElem::Field(f, fty) => {
                    // name of the field when the base is an ADT
                    let base_ty = cur.ty(body, self.tcx);
                    let mut name = String::new();
                    if let ty::Adt(adt, _) = base_ty.ty.kind() {
                        let vi = base_ty.variant_index.unwrap_or(rustc_abi::FIRST_VARIANT);
                        if vi.as_usize() < adt.variants().len() {
                            let v = adt.variant(vi);
                            if f.as_usize() < v.fields.len() {
                                name = v.fields[f].name.to_string();
                            }
                        }
                    }
                    let _ = write!(
                        o,
                        "{{\"f\":{},\"name\":{},\"ty\":{}}}",
                        f.as_usize(),
                        esc(&name),
                        esc(&self.ty(fty))
                    );
                }
                ProjectionElem::Index(l) => {
                    let _ = write!(o, "{{\"idx\":{}}}", l.as_usize());
                }
                ProjectionElem::ConstantIndex { offset, min_length, from_end } => {
                    let _ = write!(
                        o,
                        "{{\"cidx\":{offset},\"min\":{min_length},\"from_end\":{from_end}}}"
                    );
                }
                ProjectionElem::Subslice { from, to, from_end } => {
                    let _ = write!(o, "{{\"sub\":[{from},{to}],\"from_end\":{from_end}}}");
                }
                ProjectionElem::Downcast(name, vi) => {
                    let n = name.map(|s| s.to_string()).unwrap_or_default();
                    let _ = write!(o, "{{\"dc\":{},\"name\":{}}}", vi.as_usize(), esc(&n));
                }
                _ => o.push_str("\"opaque\""),
            }
            cur = mir::PlaceRef { local: p.local, projection: &p.projection[..=i] };
        }
        o.push_str("]}");
        o
    }

    fn konst(&self, c: &Const<'tcx>, env: TypingEnv<'tcx>) -> String {
        let t = c.ty();
        let mut o = format!("{{\"k\":\"const\",\"ty\":{}", esc(&self.ty(t)));
        match t.kind() {
            ty::FnDef(did, args) => {
                let _ = write!(o, ",\"fn\":{}", esc(&self.path(*did)));
                let _ = write!(o, ",\"fn_args\":{}", esc(&format!("{args:?}")));
                if let Ok(Some(inst)) = ty::Instance::try_resolve(self.tcx, env, *did, args) {
                    let rd = inst.def_id();
                    if rd != *did {
                        let _ = write!(o, ",\"fn_resolved\":{}", esc(&self.path(rd)));
                    }
                }
            }
            ty::Bool | ty::Char | ty::Int(_) | ty::Uint(_) => {
                if let Some(si) = c.try_eval_scalar_int(self.tcx, env) {
                    let size = si.size();
                    let bits = si.to_bits(size);
                    let v: i128 = match t.kind() {
                        ty::Int(_) => size.sign_extend(bits) as i128,
                        _ => bits as i128,
                    };
                    let _ = write!(o, ",\"v\":{v}");
                }
            }
            ty::Ref(_, inner, _) => {
                let is_str = inner.is_str();
                let is_bytes = match inner.kind() {
                    ty::Slice(e) | ty::Array(e, _) => matches!(e.kind(), ty::Uint(ty::UintTy::U8)),
                    _ => false,
                };
                if is_str || matches!(inner.kind(), ty::Slice(_)) && is_bytes {
                    if let Ok(v) = c.eval(self.tcx, env, rustc_span::DUMMY_SP) {
                        if !matches!(v, ConstValue::Scalar(_) | ConstValue::ZeroSized) {
                            if let Some(b) = v.try_get_slice_bytes_for_diagnostics(self.tcx) {
                                if is_str {
                                    let _ = write!(o, ",\"s\":{}", esc(&String::from_utf8_lossy(b)));
                                } else {
                                    let _ = write!(o, ",\"bytes\":{}", bytes_json(b));
                                }
                            }
                        }
                    }
                }
            }
            _ => {}
        }
        let _ = write!(o, ",\"dbg\":{}}}", esc(&format!("{c}")));
        o
    }

    fn operand(&self, body: &Body<'tcx>, op: &Operand<'tcx>, env: TypingEnv<'tcx>) -> String {
        match op {
            Operand::Copy(p) => format!("{{\"k\":\"copy\",\"p\":{}}}", self.place(body, p)),
            Operand::Move(p) => format!("{{\"k\":\"move\",\"p\":{}}}", self.place(body, p)),
            Operand::Constant(c) => self.konst(&c.const_, env),
            _ => "{\"k\":\"runtime_checks\"}".to_string(),
        }
    }

    fn rvalue(&self, body: &Body<'tcx>, rv: &Rvalue<'tcx>, env: TypingEnv<'tcx>) -> String {
        match rv {
            Rvalue::Use(op, ..) => format!("{{\"k\":\"use\",\"ops\":[{}]}}", self.operand(body, op, env)),
            Rvalue::Repeat(op, n) => format!(
                "{{\"k\":\"repeat\",\"ops\":[{}],\"n\":{}}}",
                self.operand(body, op, env),
                esc(&format!("{n}"))
            ),
            Rvalue::Ref(_, bk, p) => format!(
                "{{\"k\":\"ref\",\"mut\":{},\"p\":{}}}",
                matches!(bk, mir::BorrowKind::Mut { .. }),
                self.place(body, p)
            ),
            Rvalue::RawPtr(_, p) => format!("{{\"k\":\"rawptr\",\"p\":{}}}", self.place(body, p)),
            Rvalue::Cast(ck, op, t) => format!(
                "{{\"k\":\"cast\",\"ck\":{},\"ops\":[{}],\"ty\":{}}}",
                esc(&format!("{ck:?}")),
                self.operand(body, op, env),
                esc(&self.ty(*t))
            ),
            Rvalue::BinaryOp(bop, ab) => format!(
                "{{\"k\":\"bin\",\"op\":{},\"ops\":[{},{}]}}",
                esc(&format!("{bop:?}")),
                self.operand(body, &ab.0, env),
                self.operand(body, &ab.1, env)
            ),
            Rvalue::UnaryOp(uop, a) => format!(
                "{{\"k\":\"un\",\"op\":{},\"ops\":[{}]}}",
                esc(&format!("{uop:?}")),
                self.operand(body, a, env)
            ),
            Rvalue::Discriminant(p) => format!("{{\"k\":\"discr\",\"p\":{}}}", self.place(body, p)),
            Rvalue::CopyForDeref(p) => format!(
                "{{\"k\":\"use\",\"ops\":[{{\"k\":\"copy\",\"p\":{}}}]}}",
                self.place(body, p)
            ),
            Rvalue::Aggregate(ak, ops) => {
                let mut o = String::from("{\"k\":\"agg\"");
                match &**ak {
                    AggregateKind::Array(_) => o.push_str(",\"ak\":\"array\""),
                    AggregateKind::Tuple => o.push_str(",\"ak\":\"tuple\""),
                    AggregateKind::Adt(did, vi, _, _, active) => {
                        let adt = self.tcx.adt_def(*did);
                        let v = adt.variant(*vi);
                        let _ = write!(
                            o,
                            ",\"ak\":\"adt\",\"adt\":{},\"variant\":{},\"vname\":{}",
                            esc(&self.path(*did)),
                            vi.as_usize(),
                            esc(&v.name.to_string())
                        );
                        o.push_str(",\"fields\":[");
                        if let Some(af) = active {
                            o.push_str(&esc(&v.fields[*af].name.to_string()));
                        } else {
                            for (i, f) in v.fields.iter().enumerate() {
                                if i > 0 {
                                    o.push(',');
                                }
                                o.push_str(&esc(&f.name.to_string()));
                            }
                        }
                        o.push(']');
                    }
                    AggregateKind::Closure(did, _) => {
                        let _ = write!(o, ",\"ak\":\"closure\",\"def\":{}", esc(&self.path(*did)));
                    }
                    AggregateKind::Coroutine(did, _) => {
                        let _ = write!(o, ",\"ak\":\"coroutine\",\"def\":{}", esc(&self.path(*did)));
                    }
                    AggregateKind::CoroutineClosure(did, _) => {
                        let _ = write!(o, ",\"ak\":\"closure\",\"def\":{}", esc(&self.path(*did)));
                    }
                    AggregateKind::RawPtr(..) => o.push_str(",\"ak\":\"rawptr\""),
                }
                o.push_str(",\"ops\":[");
                for (i, op) in ops.iter().enumerate() {
                    if i > 0 {
                        o.push(',');
                    }
                    o.push_str(&self.operand(body, op, env));
                }
                o.push_str("]}");
                o
            }
            other => format!("{{\"k\":\"other\",\"dbg\":{}}}", esc(&format!("{other:?}"))),
        }
    }

    fn span_json(&self, sp: Span) -> String {
        let (_, l, c) = self.loc(sp);
        format!("\"line\":{l},\"col\":{c},\"exp\":{}", sp.from_expansion())
    }

    fn block(&self, body: &Body<'tcx>, bb: &BasicBlockData<'tcx>, env: TypingEnv<'tcx>) -> String {
        let mut o = String::from("{\"stmts\":[");
        let mut first = true;
        for st in &bb.statements {
            if let StatementKind::Assign(b) = &st.kind {
                let (p, rv) = &**b;
                if !first {
                    o.push(',');
                }
                first = false;
                let _ = write!(
                    o,
                    "{{\"dst\":{},\"rv\":{},{}}}",
                    self.place(body, p),
                    self.rvalue(body, rv, env),
                    self.span_json(st.source_info.span)
                );
            }
        }
        o.push_str("],\"cleanup\":");
        let _ = write!(o, "{}", bb.is_cleanup);
        o.push_str(",\"term\":");
        let t = bb.terminator();
        let sj = self.span_json(t.source_info.span);
        match &t.kind {
            TerminatorKind::Goto { target } => {
                let _ = write!(o, "{{\"k\":\"goto\",\"target\":{},{sj}}}", target.as_usize());
            }
            TerminatorKind::FalseEdge { real_target, imaginary_target } => {
                let _ = write!(
                    o,
                    "{{\"k\":\"goto\",\"target\":{},\"imaginary\":{},{sj}}}",
                    real_target.as_usize(),
                    imaginary_target.as_usize()
                );
            }
            TerminatorKind::FalseUnwind { real_target, .. } => {
                let _ = write!(o, "{{\"k\":\"goto\",\"target\":{},\"loop_head\":true,{sj}}}", real_target.as_usize());
            }
            TerminatorKind::SwitchInt { discr, targets } => {
                let _ = write!(o, "{{\"k\":\"switch\",\"on\":{},\"targets\":[", self.operand(body, discr, env));
                for (i, (v, tb)) in targets.iter().enumerate() {
                    if i > 0 {
                        o.push(',');
                    }
                    let _ = write!(o, "[{},{}]", v, tb.as_usize());
                }
                let _ = write!(o, "],\"otherwise\":{},{sj}}}", targets.otherwise().as_usize());
            }
            TerminatorKind::Return => {
                let _ = write!(o, "{{\"k\":\"return\",{sj}}}");
            }
            TerminatorKind::Unreachable => {
                let _ = write!(o, "{{\"k\":\"unreachable\",{sj}}}");
            }
            TerminatorKind::Drop { place, target, .. } => {
                let _ = write!(
                    o,
                    "{{\"k\":\"drop\",\"p\":{},\"target\":{},{sj}}}",
                    self.place(body, place),
                    target.as_usize()
                );
            }
            TerminatorKind::Call { func, args, destination, target, fn_span, .. } => {
                let _ = write!(o, "{{\"k\":\"call\",\"func\":{},\"args\":[", self.operand(body, func, env));
                for (i, a) in args.iter().enumerate() {
                    if i > 0 {
                        o.push(',');
                    }
                    o.push_str(&self.operand(body, &a.node, env));
                }
                let (_, fl, fc) = self.loc(*fn_span);
                let _ = write!(
                    o,
                    "],\"dst\":{},\"target\":{},\"fn_line\":{fl},\"fn_col\":{fc},{sj}}}",
                    self.place(body, destination),
                    target.map_or("null".to_string(), |t| t.as_usize().to_string())
                );
            }
            TerminatorKind::Assert { cond, expected, msg, target, .. } => {
                let kind = format!("{msg:?}");
                let kind = kind.split('(').next().unwrap_or("").to_string();
                let _ = write!(
                    o,
                    "{{\"k\":\"assert\",\"cond\":{},\"expected\":{},\"msg\":{},\"target\":{},{sj}}}",
                    self.operand(body, cond, env),
                    expected,
                    esc(&kind),
                    target.as_usize()
                );
            }
            TerminatorKind::Yield { value, resume, drop, .. } => {
                let _ = write!(
                    o,
                    "{{\"k\":\"yield\",\"value\":{},\"target\":{},\"drop\":{},{sj}}}",
                    self.operand(body, value, env),
                    resume.as_usize(),
                    drop.map_or("null".to_string(), |t| t.as_usize().to_string())
                );
            }
            TerminatorKind::UnwindResume => {
                let _ = write!(o, "{{\"k\":\"resume\",{sj}}}");
            }
            TerminatorKind::UnwindTerminate(_) => {
                let _ = write!(o, "{{\"k\":\"terminate\",{sj}}}");
            }
            TerminatorKind::CoroutineDrop => {
                let _ = write!(o, "{{\"k\":\"coroutine_drop\",{sj}}}");
            }
            other => {
                let _ = write!(o, "{{\"k\":\"other\",\"dbg\":{},{sj}}}", esc(&format!("{other:?}")));
            }
        }
        o.push('}');
        o
    }

    fn wanted(&self, def: LocalDefId) -> bool {
        matches!(self.tcx.def_kind(def.to_def_id()), DefKind::Fn | DefKind::AssocFn | DefKind::Closure)
    }

    fn body(&self, def: LocalDefId, body: &Body<'tcx>) -> Option<String> {
        let tcx = self.tcx;
        let did = def.to_def_id();
        let kind = tcx.def_kind(did);
        let kstr = match kind {
            DefKind::Fn | DefKind::AssocFn => "fn",
            DefKind::Closure => {
                if tcx.is_coroutine(did) {
                    "coroutine"
                } else {
                    "closure"
                }
            }
            _ => return None,
        };
        let env = TypingEnv::post_analysis(tcx, did);
        let (file, lo, _) = self.loc(body.span);
        let hi = self.hi_line(body.span);
        let parent = if matches!(kind, DefKind::Closure) {
            esc(&self.path(tcx.parent(did)))
        } else {
            "null".to_string()
        };
        let vis_pub = matches!(kind, DefKind::Fn | DefKind::AssocFn) && tcx.visibility(did).is_public();
        let mut o = format!(
            "{{\"path\":{},\"kind\":\"{kstr}\",\"parent\":{parent},\"file\":{},\"lo\":{lo},\"hi\":{hi},\"argc\":{},\"pub\":{vis_pub},\"locals\":[",
            esc(&self.path(did)),
            esc(&file),
            body.arg_count
        );
        // user variable names
        let mut names: Vec<Option<String>> = vec![None; body.local_decls.len()];
        let mut upvar_names: Vec<(usize, String)> = Vec::new();
        for vdi in &body.var_debug_info {
            if let mir::VarDebugInfoContents::Place(p) = &vdi.value {
                if p.projection.is_empty() {
                    names[p.local.as_usize()] = Some(vdi.name.to_string());
                } else if p.local.as_usize() == 1 {
                    // captured upvar: _1.k or (*_1).k ...
                    for e in p.projection.iter() {
                        if let ProjectionElem::Field(f, _) = e {
                            upvar_names.push((f.as_usize(), vdi.name.to_string()));
                            break;
                        }
                    }
                }
            }
        }
        for (i, ld) in body.local_decls.iter().enumerate() {
            if i > 0 {
                o.push(',');
            }
            let _ = write!(
                o,
                "{{\"ty\":{},\"name\":{},\"user\":{}}}",
                esc(&self.ty(ld.ty)),
                names[i].as_ref().map_or("null".to_string(), |n| esc(n)),
                ld.is_user_variable()
            );
        }
        o.push_str("],\"upvars\":[");
        for (i, (f, n)) in upvar_names.iter().enumerate() {
            if i > 0 {
                o.push(',');
            }
            let _ = write!(o, "[{},{}]", f, esc(n));
        }
        o.push_str("],\"blocks\":[");
        for (i, bb) in body.basic_blocks.iter().enumerate() {
            if i > 0 {
                o.push(',');
            }
            o.push_str(&self.block(body, bb, env));
        }
        o.push_str("]}");
        Some(o)
    }

    fn consts(&self) -> String {
        let tcx = self.tcx;
        let mut o = String::from("{");
        let mut first = true;
        for def in tcx.hir_body_owners() {
            let did = def.to_def_id();
            if !matches!(tcx.def_kind(did), DefKind::Const { .. } | DefKind::AssocConst { .. }) {
                continue;
            }
            let t = tcx.type_of(did).instantiate_identity().skip_norm_wip();
            let mut val = String::from("null");
            if let Ok(cv) = tcx.const_eval_poly(did) {
                match t.kind() {
                    ty::Bool | ty::Char | ty::Int(_) | ty::Uint(_) => {
                        if let Some(si) = cv.try_to_scalar_int() {
                            let size = si.size();
                            let bits = si.to_bits(size);
                            let v: i128 = match t.kind() {
                                ty::Int(_) => size.sign_extend(bits) as i128,
                                _ => bits as i128,
                            };
                            val = format!("{v}");
                        }
                    }
                    ty::Ref(_, inner, _) if inner.is_str() => {
                        if !matches!(cv, ConstValue::Scalar(_) | ConstValue::ZeroSized) {
                            if let Some(b) = cv.try_get_slice_bytes_for_diagnostics(tcx) {
                                val = esc(&String::from_utf8_lossy(b));
                            }
                        }
                    }
                    _ => {}
                }
            }
            if !first {
                o.push(',');
            }
            first = false;
            let (_, line, _) = self.loc(tcx.def_span(did));
            let _ = write!(
                o,
                "{}:{{\"ty\":{},\"val\":{val},\"line\":{line}}}",
                esc(&self.path(did)),
                esc(&self.ty(t))
            );
        }
        o.push('}');
        o
    }

    fn adts(&self) -> String {
        let tcx = self.tcx;
        let mut o = String::from("[");
        let mut first = true;
        let mut dids: Vec<rustc_span::def_id::DefId> = tcx.hir_crate_items(()).definitions().map(|id| id.to_def_id()).collect();
        // one foreign enum the rules reason about: which error kinds an `match e.kind() { .. }` handles
        if let Some(ek) = tcx.get_diagnostic_item(rustc_span::Symbol::intern("io_errorkind")) {
            dids.push(ek);
        }
        for did in dids {
            let kind = tcx.def_kind(did);
            if !matches!(kind, DefKind::Struct | DefKind::Enum) {
                continue;
            }
            let adt = tcx.adt_def(did);
            if !first {
                o.push(',');
            }
            first = false;
            let (file, line, _) = self.loc(tcx.def_span(did));
            let _ = write!(
                o,
                "{{\"path\":{},\"kind\":\"{}\",\"file\":{},\"line\":{line},\"variants\":[",
                esc(&self.path(did)),
                if adt.is_enum() { "enum" } else { "struct" },
                esc(&file)
            );
            let discrs: Vec<u128> = if adt.is_enum() {
                adt.discriminants(tcx).map(|(_, d)| d.val).collect()
            } else {
                vec![0]
            };
            for (i, v) in adt.variants().iter().enumerate() {
                if i > 0 {
                    o.push(',');
                }
                let _ = write!(
                    o,
                    "{{\"name\":{},\"discr\":{},\"fields\":[",
                    esc(&v.name.to_string()),
                    discrs.get(i).copied().unwrap_or(0)
                );
                for (j, f) in v.fields.iter().enumerate() {
                    if j > 0 {
                        o.push(',');
                    }
                    let fty = tcx.type_of(f.did).instantiate_identity().skip_norm_wip();
                    let _ = write!(o, "{{\"name\":{},\"ty\":{}}}", esc(&f.name.to_string()), esc(&self.ty(fty)));
                }
                o.push_str("]}");
            }
            o.push_str("]}");
        }
        o.push(']');
        o
    }

    fn impls(&self) -> String {
        let tcx = self.tcx;
        let mut o = String::from("[");
        let mut first = true;
        for (trait_did, impls) in tcx.all_local_trait_impls(()) {
            for imp in impls {
                let self_ty = tcx.type_of(imp.to_def_id()).instantiate_identity().skip_norm_wip();
                if !first {
                    o.push(',');
                }
                first = false;
                let _ = write!(
                    o,
                    "{{\"trait\":{},\"self\":{}}}",
                    esc(&self.path(*trait_did)),
                    esc(&self.ty(self_ty))
                );
            }
        }
        o.push(']');
        o
    }
}

// ---------------------------------------------------------------- format_args! sites (expanded AST)

struct FmtVisitor<'a, 'tcx> {
    ex: &'a Ex<'tcx>,
    out: Vec<String>,
}

fn expr_json(e: &rustc_ast::Expr, depth: usize) -> String {
    use rustc_ast::ExprKind;
    let src = rustc_ast_pretty::pprust::expr_to_string(e);
    if depth > 8 {
        return format!("{{\"k\":\"other\",\"src\":{}}}", esc(&src));
    }
    match &e.kind {
        ExprKind::Path(None, p) if p.segments.len() == 1 => {
            format!("{{\"k\":\"var\",\"name\":{}}}", esc(&p.segments[0].ident.to_string()))
        }
        ExprKind::AddrOf(_, _, inner) | ExprKind::Paren(inner) => expr_json(inner, depth + 1),
        ExprKind::MethodCall(mc) => {
            let mut o = format!(
                "{{\"k\":\"mcall\",\"method\":{},\"recv\":{},\"args\":[",
                esc(&mc.seg.ident.to_string()),
                expr_json(&mc.receiver, depth + 1)
            );
            for (i, a) in mc.args.iter().enumerate() {
                if i > 0 {
                    o.push(',');
                }
                o.push_str(&expr_json(a, depth + 1));
            }
            let _ = write!(o, "],\"src\":{}}}", esc(&src));
            o
        }
        ExprKind::Call(f, args) => {
            let mut o = format!(
                "{{\"k\":\"call\",\"func\":{},\"args\":[",
                esc(&rustc_ast_pretty::pprust::expr_to_string(f))
            );
            for (i, a) in args.iter().enumerate() {
                if i > 0 {
                    o.push(',');
                }
                o.push_str(&expr_json(a, depth + 1));
            }
            let _ = write!(o, "],\"src\":{}}}", esc(&src));
            o
        }
        ExprKind::Lit(l) => {
            format!(
                "{{\"k\":\"lit\",\"lk\":{},\"sym\":{}}}",
                esc(&format!("{:?}", l.kind)),
                esc(&l.symbol.to_string())
            )
        }
        ExprKind::Field(b, id) => {
            format!(
                "{{\"k\":\"field\",\"base\":{},\"name\":{},\"src\":{}}}",
                expr_json(b, depth + 1),
                esc(&id.to_string()),
                esc(&src)
            )
        }
        _ => format!("{{\"k\":\"other\",\"src\":{}}}", esc(&src)),
    }
}

impl<'a, 'tcx, 'ast> rustc_ast::visit::Visitor<'ast> for FmtVisitor<'a, 'tcx> {
    fn visit_expr(&mut self, e: &'ast rustc_ast::Expr) {
        if let rustc_ast::ExprKind::FormatArgs(fa) = &e.kind {
            let (file, line, col) = self.ex.loc(e.span);
            // outermost user-written macro
            let mut mac = String::new();
            for ed in e.span.macro_backtrace() {
                if let rustc_span::ExpnKind::Macro(_, name) = ed.kind {
                    mac = name.to_string();
                }
            }
            let mut o = format!(
                "{{\"file\":{},\"line\":{line},\"col\":{col},\"macro\":{},\"pieces\":[",
                esc(&file),
                esc(&mac)
            );
            for (i, p) in fa.template.iter().enumerate() {
                if i > 0 {
                    o.push(',');
                }
                match p {
                    rustc_ast::FormatArgsPiece::Literal(s) => o.push_str(&esc(s.as_str())),
                    rustc_ast::FormatArgsPiece::Placeholder(ph) => {
                        let idx = match ph.argument.index {
                            Ok(i) => i as i64,
                            Err(_) => -1,
                        };
                        let tr = format!("{:?}", ph.format_trait);
                        let width = match ph.format_options.width {
                            Some(rustc_ast::FormatCount::Literal(n)) => n as i64,
                            Some(_) => -2,
                            None => -1,
                        };
                        let _ = write!(
                            o,
                            "{{\"arg\":{idx},\"trait\":{},\"width\":{width},\"zero_pad\":{}}}",
                            esc(&tr),
                            ph.format_options.zero_pad
                        );
                    }
                }
            }
            o.push_str("],\"args\":[");
            for (i, a) in fa.arguments.all_args().iter().enumerate() {
                if i > 0 {
                    o.push(',');
                }
                o.push_str(&expr_json(&a.expr, 0));
            }
            o.push_str("]}");
            self.out.push(o);
        }
        rustc_ast::visit::walk_expr(self, e);
    }
}

// ---------------------------------------------------------------- driver glue

struct Cb;

impl rustc_driver::Callbacks for Cb {
    fn after_expansion<'tcx>(
        &mut self,
        _compiler: &rustc_interface::interface::Compiler,
        tcx: TyCtxt<'tcx>,
    ) -> Compilation {
        let Ok(dir) = std::env::var("COPIA_FACTS_DIR") else {
            return Compilation::Continue;
        };
        let crate_name = tcx.crate_name(LOCAL_CRATE).to_string();
        let crate_types: Vec<String> = tcx.crate_types().iter().map(|t| format!("{t:?}")).collect();
        let ex = Ex { tcx };

        // format sites first (needs the AST before it is dropped by lowering of later queries)
        let mut fv = FmtVisitor { ex: &ex, out: Vec::new() };
        {
            let resolver = tcx.resolver_for_lowering().borrow();
            let krate = &resolver.1;
            rustc_ast::visit::walk_crate(&mut fv, krate);
        }
        let formats = fv.out;

        // Clone every mir_built body first: later queries (opaque-type resolution
        // runs borrowck) steal mir_built.
        let mut cloned: Vec<(LocalDefId, Body<'tcx>)> = Vec::new();
        for def in tcx.hir_body_owners() {
            if ex.wanted(def) {
                let b = tcx.mir_built(def).borrow().clone();
                cloned.push((def, b));
            }
        }
        let mut bodies = Vec::new();
        for (def, b) in &cloned {
            if let Some(s) = ex.body(*def, b) {
                bodies.push(s);
            }
        }
        let mut o = String::new();
        let _ = write!(
            o,
            "{{\"crate\":{},\"crate_types\":{},\"consts\":{},\"adts\":{},\"impls\":{},\"formats\":[{}],\"bodies\":[{}]}}",
            esc(&crate_name),
            esc(&crate_types.join(",")),
            ex.consts(),
            ex.adts(),
            ex.impls(),
            formats.join(","),
            bodies.join(",\n")
        );
        let is_bin = crate_types.iter().any(|t| t.contains("Executable"));
        let fname = format!("{dir}/{crate_name}-{}.json", if is_bin { "bin" } else { "lib" });
        let tmp = format!("{fname}.{}.tmp", std::process::id());
        if std::fs::write(&tmp, o).is_ok() {
            let _ = std::fs::rename(&tmp, &fname);
        }
        Compilation::Continue
    }
}

fn main() {
    let mut args: Vec<String> = std::env::args().collect();
    // RUSTC_WORKSPACE_WRAPPER: argv[1] is the real rustc.
    if args.len() > 1 && (args[1].ends_with("rustc") || args[1].ends_with("rustc.exe")) {
        args.remove(1);
    }
    rustc_driver::run_compiler(&args, &mut Cb);
}
