#!/usr/bin/python3
"""Self-validation of the checker on seeded mutants (DESIGN §9).

  selftest/mutate.py [-j N] [ID ...]      run the listed (default: all) mutants from mutants.json

Each mutant is a textual edit of a scratch copy of /repo (never /repo itself); the scratch
copy is statically analysed (copia is never run) by the registered check of the mutant's
property, which must print a VIOLATION whose key contains `expect`.  Scratch copies and their
build output live under a mktemp dir and are removed at the end.
"""
import json
import os
import shutil
import subprocess
import sys
import tempfile
from concurrent.futures import ThreadPoolExecutor

HERE = os.path.dirname(os.path.abspath(__file__))
VERIF = os.path.dirname(HERE)
REPO = os.environ.get('COPIA_REPO', '/repo')


def make_scratch(base, i):
    d = os.path.join(base, 'w%d' % i)
    os.makedirs(d)
    subprocess.check_call(['rsync', '-a', '--exclude', 'target', '--exclude', '.git', REPO + '/', d + '/repo/'])
    cache = os.path.join(d, 'cache')
    os.makedirs(cache)
    for t in ('target-default', 'target-cli'):
        src = os.path.join(VERIF, '.cache', t)
        if os.path.isdir(src):
            subprocess.check_call(['cp', '-a', src, os.path.join(cache, t)])
    return d


def apply(repo, m):
    edits = m['edits'] if 'edits' in m else [m]
    saved = {}
    for e in edits:
        if 'patch' in e:
            # a whole patch file (relative to /verif) as the base of the mutant, e.g. a behaviour-preserving refactoring from benign/
            import re
            pf = os.path.join(VERIF, e['patch'])
            for f in re.findall(r'^\+\+\+ b/(\S+)', open(pf).read(), re.M):
                fp = os.path.join(repo, f)
                saved.setdefault(fp, open(fp).read())
            r = subprocess.run(['patch', '-p1', '-s', '--no-backup-if-mismatch', '-i', pf], cwd=repo, stdout=subprocess.PIPE, stderr=subprocess.STDOUT, text=True)
            if r.returncode:
                for p2, s2 in saved.items():
                    open(p2, 'w').write(s2)
                raise LookupError('mutant %s: patch %s does not apply: %s' % (m.get('id'), e['patch'], r.stdout[:200]))
            continue
        p = os.path.join(repo, e['file'])
        s = open(p).read()
        saved.setdefault(p, s)
        if 'rename' in e:
            # rename identifiers inside one function (`fn <name>` up to its matching closing brace)
            import re
            m = re.search(r'\bfn\s+%s\b' % re.escape(e['fn']), s)
            if not m:
                for p2, s2 in saved.items():
                    open(p2, 'w').write(s2)
                raise LookupError('mutant %s: fn %s not found in %s' % (m and '' or e['fn'], e['fn'], e['file']))
            i = s.index('{', s.index(')', m.end()) if False else m.end())
            # find the body's opening brace: first '{' after the signature's closing paren at depth 0
            depth, j = 0, m.end()
            while j < len(s):
                if s[j] == '(':
                    depth += 1
                elif s[j] == ')':
                    depth -= 1
                elif s[j] == '{' and depth == 0:
                    break
                j += 1
            k, d = j, 0
            while k < len(s):
                if s[k] == '{':
                    d += 1
                elif s[k] == '}':
                    d -= 1
                    if d == 0:
                        break
                k += 1
            start = m.start()
            # include the attribute lines directly above the fn (e.g. #[instrument(skip(param))])
            while True:
                ls = s.rfind('\n', 0, max(start - 1, 0))
                prev = s[s.rfind('\n', 0, max(ls, 0)) + 1:ls + 1] if ls > 0 else ''
                line_start = s.rfind('\n', 0, start) + 1
                head = s[line_start:start]
                pl_end = line_start - 1
                pl_start = s.rfind('\n', 0, max(pl_end, 0)) + 1
                pl = s[pl_start:pl_end]
                if pl.strip().startswith('#['):
                    start = pl_start
                else:
                    break
            seg = s[start:k + 1]
            if e['rename'] == 'all':
                # every parameter and simple `let` binding of the function gets a new name (shorthand struct fields excluded)
                body_txt = s[m.start():k + 1]
                sig = body_txt[:body_txt.index('{')]
                names = set(re.findall(r'(?:\(|,)\s*(?:mut\s+)?([a-z_][a-z0-9_]*)\s*:', sig))
                names |= set(re.findall(r'\blet\s+(?:mut\s+)?([a-z_][a-z0-9_]*)\b', body_txt))
                names |= set(x for tup in re.findall(r'\blet\s+\(([^)]*)\)\s*=', body_txt) for x in re.findall(r'(?:mut\s+)?([a-z_][a-z0-9_]*)', tup) if x != 'mut')
                names -= {'self', '_', 'mut'} | set(e.get('skip', []))
                # a name used as a shorthand field (`Foo { name, .. }` / `Foo { name }`) cannot be renamed textually
                for nme in sorted(names):
                    if re.search(r'[{,]\s*%s\s*[,}]' % re.escape(nme), body_txt) or re.search(r'\b%s\s*@' % re.escape(nme), body_txt):
                        names.discard(nme)
                e = dict(e, rename={nme: nme + '_rn' for nme in names})
            # never touch string literals or field labels (`name:` inside braces of a pattern / struct literal is left alone
            # unless it is followed by a type, which we cannot tell apart - so labels are skipped only when followed by a space+lowercase ident and a comma/brace)
            sig_end = seg.index('{', seg.index('fn ')) if '{' in seg else 0
            # signature: plain rename (skip(...) lists of attributes included); body: leave `label: value` field labels alone
            head_, seg = seg[:sig_end], seg[sig_end:]
            for old, new in e['rename'].items():
                head_ = re.sub(r'(?<![\w.])%s\b' % re.escape(old), new, head_)
            parts = re.split(r'("(?:[^"\\]|\\.)*")', seg)
            for pi_ in range(0, len(parts), 2):
                for old, new in e['rename'].items():
                    parts[pi_] = re.sub(r'(?<![\w.])%s\b(?!\s*:\s*[a-z_]+\s*[,}])' % re.escape(old), new, parts[pi_])
            for pi_ in range(1, len(parts), 2):
                for old, new in e['rename'].items():
                    # inline format arguments: "{name}" / "{name:?}"
                    parts[pi_] = re.sub(r'\{%s(?=[}:])' % re.escape(old), '{' + new, parts[pi_])
            seg = head_ + ''.join(parts)
            s = s[:start] + seg + s[k + 1:]
            open(p, 'w').write(s)
            continue
        if s.count(e['old']) < 1:
            for p2, s2 in saved.items():
                open(p2, 'w').write(s2)
            raise LookupError('mutant %s: pattern not found in %s: %r' % (m['id'], e['file'], e['old'][:60]))
        s = s.replace(e['old'], e['new'], e.get('count', 1))
        open(p, 'w').write(s)
    return saved


def run_one(scratch, m):
    repo = os.path.join(scratch, 'repo')
    try:
        saved = apply(repo, m)
    except LookupError as e:
        return m, [(p, False, -1, 'STALE: %s' % e) for p in m['props']]
    env = dict(os.environ, COPIA_REPO=repo, COPIA_VERIF_CACHE=os.path.join(scratch, 'cache'),
               COPIA_VERIF_OUT=os.path.join(scratch, 'out'), VERIF_TIER='quick')
    res = []
    try:
        for prop in m['props']:
            r = subprocess.run([os.path.join(VERIF, 'check'), prop, '--tier', 'quick'], env=env, stdout=subprocess.PIPE,
                               stderr=subprocess.STDOUT, text=True)
            hit = [l for l in r.stdout.splitlines() if 'VIOLATION' in l or ': C' in l]
            keys = [l for l in r.stdout.splitlines() if m.get('expect', '') in l and not l.startswith('VIOLATION') and not l.startswith('KNOWN')]
            if m.get('undecided'):
                # honest limit: the construct is outside the rule's model - the check must say NO-VERDICT, never VIOLATION
                ok = r.returncode == 2 and 'NO-VERDICT' in r.stdout and 'VIOLATION' not in r.stdout
            else:
                ok = r.returncode == 1 and bool(keys) if not m.get('benign') else r.returncode == 0
            res.append((prop, ok, r.returncode, r.stdout))
    finally:
        for p, s in saved.items():
            open(p, 'w').write(s)
    return m, res


def run_for_property(prop, jobs=8):
    """Used by the thorough tier: run every mutant of `prop`; -> (results list, stale count)."""
    muts = [m for m in json.load(open(os.path.join(HERE, 'mutants.json'))) if prop in m['props']]
    for m in muts:
        m['props'] = [prop]
    if not muts:
        return [], 0
    base = tempfile.mkdtemp(prefix='copia-mut.')
    out = []
    try:
        jobs = min(jobs, len(muts)) or 1
        scratches = [make_scratch(base, i) for i in range(jobs)]
        chunks = [muts[i::jobs] for i in range(jobs)]

        def worker(i):
            return [run_one(scratches[i], m) for m in chunks[i]]
        with ThreadPoolExecutor(jobs) as ex:
            for res in ex.map(worker, range(jobs)):
                for m, rr in res:
                    for p, ok, rc, txt in rr:
                        out.append({'id': m['id'], 'detected' if not m.get('benign') else 'silent': ok, 'rc': rc, 'benign': bool(m.get('benign')),
                                    'stale': rc == -1})
    finally:
        shutil.rmtree(base, ignore_errors=True)
    return out, sum(1 for o in out if o['stale'])


def main():
    args = sys.argv[1:]
    jobs = 4
    if args and args[0] == '-j':
        jobs = int(args[1])
        args = args[2:]
    verbose = '-v' in args
    args = [a for a in args if a != '-v']
    muts = json.load(open(os.path.join(HERE, 'mutants.json')))
    if args:
        muts = [m for m in muts if m['id'] in args or any(m['id'].startswith(a) for a in args)]
    base = tempfile.mkdtemp(prefix='copia-mut.')
    fails = 0
    try:
        jobs = min(jobs, len(muts)) or 1
        scratches = [make_scratch(base, i) for i in range(jobs)]
        chunks = [muts[i::jobs] for i in range(jobs)]

        def worker(i):
            return [run_one(scratches[i], m) for m in chunks[i]]
        with ThreadPoolExecutor(jobs) as ex:
            for out in ex.map(worker, range(jobs)):
                for m, res in out:
                    for prop, ok, rc, txt in res:
                        print('%-6s %-34s %-4s rc=%d %s' % ('PASS' if ok else 'FAIL', m['id'], prop, rc, m.get('note', '')))
                        if not ok or verbose:
                            print('      ' + '\n      '.join(txt.strip().splitlines()[-8:]))
                        if not ok:
                            fails += 1
    finally:
        shutil.rmtree(base, ignore_errors=True)
    print('%d mutant check(s) failed' % fails)
    return 1 if fails else 0


if __name__ == '__main__':
    sys.exit(main())
