#!/usr/bin/python3
"""Run the repository's pinned suite (guard off) in /repo and compare with /root/.vp/BASELINE.json."""
import json
import re
import subprocess
import sys

base = json.load(open('/root/.vp/BASELINE.json'))
want = set(base['stable_pass'])
env = dict(__import__('os').environ, CARGO_NET_OFFLINE='true')
r = subprocess.run(['cargo', 'test', '--workspace', '--no-fail-fast', '--offline'], cwd=sys.argv[1] if len(sys.argv) > 1 else '/repo',
                   env=env, stdout=subprocess.PIPE, stderr=subprocess.STDOUT, text=True)
cur = None
ok, bad = set(), set()
for line in r.stdout.splitlines():
    m = re.match(r'\s*Running (?:unittests )?(\S+)', line)
    if m:
        p = m.group(1)
        cur = 'lib' if p.startswith('src/lib.rs') else re.sub(r'\.rs$', '', p.split('/')[-1])
    m = re.match(r'test (\S+)(?: - should panic)? \.\.\. (ok|FAILED)', line)
    if m and cur:
        name = 'copia::' + (m.group(1) if cur == 'lib' else cur + '::' + m.group(1))
        (ok if m.group(2) == 'ok' else bad).add(name)
missing = sorted(want - ok)
print('baseline stable tests: %d, passing now: %d, regressions: %d' % (len(want), len(want & ok), len(missing)))
for x in missing[:30]:
    print('  REGRESSION', x)
sys.exit(1 if missing else 0)
